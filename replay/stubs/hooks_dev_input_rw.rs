pub mod verif_replay {
  use serde_json::Value;
  pub fn uinput_write(_req: &Value) -> Result<Value, String> { Err("hook unavailable: dev_input_rw".to_string()) }
  pub fn uinput_read(_req: &Value) -> Result<Value, String> { Err("hook unavailable: dev_input_rw".to_string()) }
}
