pub mod verif_replay {
  use serde_json::{json, Value};
  pub fn extract(_text: &str) -> Value { json!({"error": "hook unavailable: keyboard_listing"}) }
}
