// Stub used when hooks_remapping_loop.rs does not compile against the current tree (changed private signatures).
pub mod verif_replay {
  use serde_json::Value;
  pub fn run_loop_script(_req: &Value) -> Result<Value, String> { Err("hook unavailable: remapping_loop".to_string()) }
}
pub mod verif_select {
  use serde_json::Value;
  pub fn kbd_select(_req: &Value) -> Result<Value, String> { Err("hook unavailable: remapping_loop".to_string()) }
}
