pub mod verif_replay {
  use serde_json::Value;
  pub fn service_text(_req: &Value) -> Result<Value, String> { Err("hook unavailable: udev_utils".to_string()) }
  pub fn escape_char(_req: &Value) -> Result<Value, String> { Err("hook unavailable: udev_utils".to_string()) }
}
