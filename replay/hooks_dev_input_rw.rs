// Included at the end of dev_input_rw.rs by the replay crate.
pub mod verif_replay {
  use super::*;
  use serde_json::{json, Value};

  fn nonblocking_pipe() -> Result<(RawFd, RawFd), String> {
    let (r, w) = nix::unistd::pipe().map_err(|e| format!("pipe: {}", e))?;
    nix::fcntl::fcntl(r, nix::fcntl::FcntlArg::F_SETFL(OFlag::O_NONBLOCK)).map_err(|e| format!("fcntl: {}", e))?;
    Ok((r, w))
  }

  pub fn uinput_write(req: &Value) -> Result<Value, String> {
    let mut evs = Vec::new();
    for e in req["events"].as_array().ok_or("events")? { evs.push(crate::ev_of(e)?); }
    let (r, w) = nonblocking_pipe()?;
    let mut writer = DevInputWriter { fd: w };
    let res = writer.send(&evs);
    let mut bytes: Vec<u8> = Vec::new();
    let mut buf = [0u8; 4096];
    loop {
      match read(r, &mut buf) {
        Ok(0) => break,
        Ok(n) => bytes.extend_from_slice(&buf[..n]),
        Err(_) => break,
      }
    }
    // decode with the tool's own reader
    let (r2, w2) = nonblocking_pipe()?;
    let _ = write(w2, &bytes);
    let mut reader = DevInputReader { fd: r2 };
    let mut decoded = Vec::new();
    let whole = bytes.len() / size_of::<input_event>();
    let mut guard = 0;
    if bytes.len() % size_of::<input_event>() == 0 {
      loop {
        guard += 1;
        if guard > whole + 2 { break; }
        match reader.next() { Ok(ev) => decoded.push(crate::ev_json(&ev)), Err(_) => break }
      }
    }
    for fd in [r, w, r2, w2].iter() { let _ = nix::unistd::close(*fd); }
    Ok(json!({"bytes": bytes, "send_ok": res.is_ok(), "decoded": decoded}))
  }

  pub fn uinput_read(req: &Value) -> Result<Value, String> {
    let mut bytes: Vec<u8> = Vec::new();
    for rec in req["records"].as_array().ok_or("records")? {
      let a = rec.as_array().ok_or("record")?;
      bytes.extend_from_slice(&[0u8; 16]);
      bytes.extend_from_slice(&(a[0].as_u64().unwrap_or(0) as u16).to_ne_bytes());
      bytes.extend_from_slice(&(a[1].as_u64().unwrap_or(0) as u16).to_ne_bytes());
      let v = a[2].as_i64().unwrap_or(0);
      let v32 = if v > i32::MAX as i64 { (v as u32) as i32 } else { v as i32 };
      bytes.extend_from_slice(&v32.to_ne_bytes());
    }
    let (r, w) = nonblocking_pipe()?;
    let _ = write(w, &bytes);
    let mut reader = DevInputReader { fd: r };
    let mut out = Vec::new();
    loop {
      match reader.next() { Ok(ev) => out.push(crate::ev_json(&ev)), Err(_) => break }
    }
    let _ = nix::unistd::close(r);
    let _ = nix::unistd::close(w);
    Ok(json!({"events": out}))
  }
}
