// Extension requests (loader, loop scripts, converter, escaper, uinput bytes, /proc text).
use serde_json::{json, Value};
use crate::keys;

fn basic_layout_json(l: &keys::Layout) -> Value {
  let mut out = Vec::new();
  for m in &l.mappings {
    let repeat = match &m.repeat {
      keys::Repeat::Normal => json!("Normal"),
      keys::Repeat::Disabled => json!("Disabled"),
      keys::Repeat::Special { keys, delay_ms, interval_ms } =>
        json!({"keys": keys.iter().map(|k| *k as i32).collect::<Vec<i32>>(), "delay_ms": delay_ms, "interval_ms": interval_ms}),
    };
    out.push(json!({
      "from": m.from.iter().map(|k| *k as i32).collect::<Vec<i32>>(),
      "to": m.to.iter().map(|k| *k as i32).collect::<Vec<i32>>(),
      "repeat": repeat,
      "absorbing": m.absorbing.iter().map(|k| *k as i32).collect::<Vec<i32>>(),
    }));
  }
  Value::Array(out)
}

fn load_value(v: &Value) -> Result<keys::Layout, String> {
  crate::fancy_layout_interpreting::convert(&crate::layout_parsing_formatting::parse_layout_from_json(v)?)
}

pub fn handle_ext(kind: &str, req: &Value) -> Result<Value, String> {
  match kind {
    "builtin_layouts" => {
      let mut m = serde_json::Map::new();
      for (k, v) in crate::default_fancy_layouts::DEFAULT_LAYOUTS.iter() {
        m.insert(k.clone(), json!(v));
      }
      Ok(Value::Object(m))
    },
    "load_text" => {
      // the loader's path from JSON text to a basic layout (serde_json parser + parse + convert)
      let text = req["text"].as_str().ok_or("text")?;
      let v: Value = match serde_json::from_str(text) { Ok(v) => v, Err(e) => return Ok(json!({"rejected": format!("json: {}", e)})) };
      match load_value(&v) {
        Ok(l) => Ok(json!({"layout": basic_layout_json(&l)})),
        Err(e) => Ok(json!({"rejected": e})),
      }
    },
    "load_value" => {
      match load_value(&req["value"]) {
        Ok(l) => Ok(json!({"layout": basic_layout_json(&l)})),
        Err(e) => Ok(json!({"rejected": e})),
      }
    },
    "load_file" => {
      let path = req["path"].as_str().ok_or("path")?;
      match crate::layout_loading::load_layout_from_file(path) {
        Ok(l) => Ok(json!({"layout": basic_layout_json(&l)})),
        Err(e) => Ok(json!({"rejected": e})),
      }
    },
    "load_and_install" => {
      // the loader followed by what remap does with an accepted layout: install it in a Mapper
      match load_value(&req["value"]) {
        Ok(l) => {
          let mut mapper = crate::key_transforms::Mapper::for_layout(&l);
          let _ = mapper.release_all();
          Ok(json!({"layout": basic_layout_json(&l)}))
        },
        Err(e) => Ok(json!({"rejected": e})),
      }
    },
    "save_reload" => {
      // what add_systemd_service does (serde_json::to_writer_pretty of the basic layout) followed by what the service
      // does (load_layout_from_file) - through a temporary file
      let layout = crate::layout_of(&req["layout"])?;
      let saved = serde_json::to_string_pretty(&layout).map_err(|e| format!("{}", e))?;
      let path = std::env::temp_dir().join(format!("tmreplay-{}-{}.json", std::process::id(), req["nonce"].as_u64().unwrap_or(0)));
      std::fs::write(&path, &saved).map_err(|e| format!("{}", e))?;
      let res = crate::layout_loading::load_layout_from_file(path.to_str().unwrap());
      let _ = std::fs::remove_file(&path);
      match res {
        Ok(l) => {
          let a = basic_layout_json(&layout);
          let b = basic_layout_json(&l);
          Ok(json!({"saved": saved, "reloaded": b, "same": a == b}))
        },
        Err(e) => Ok(json!({"saved": saved, "rejected": e, "same": false})),
      }
    },
    "key_names" => {
      // Display name and serde name of every key code the tool knows
      let mut out = Vec::new();
      for n in 0..1024i64 {
        if let Some(k) = <keys::KeyCode as num_traits::FromPrimitive>::from_i64(n) {
          out.push(json!([n, format!("{}", k), serde_json::to_value(&k).unwrap()]));
        }
      }
      Ok(Value::Array(out))
    },
    _ => crate::replay_ext2::handle_ext2(kind, req),
  }
}
