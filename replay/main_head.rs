// Native replay / differential-validation driver for /verif (generated crate; see mirsym/native.py).
// The repository's modules are mounted by #[path]/include!, so private items are reachable
// without any source hook. One JSON request per stdin line, one JSON answer per stdout line.
#![allow(warnings)]
#[macro_use]
extern crate enum_display_derive;
