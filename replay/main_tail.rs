
use std::io::{BufRead, Write};
use std::panic::{catch_unwind, AssertUnwindSafe};
use serde_json::{json, Value};
use num_traits::FromPrimitive;

pub fn key_of(v: &Value) -> Result<keys::KeyCode, String> {
  let n = v.as_i64().ok_or("key not a number")?;
  keys::KeyCode::from_i64(n).ok_or(format!("unknown key code {}", n))
}

pub fn keys_of(v: &Value) -> Result<Vec<keys::KeyCode>, String> {
  v.as_array().ok_or("keys not an array")?.iter().map(key_of).collect()
}

pub fn layout_of(v: &Value) -> Result<keys::Layout, String> {
  // [{from:[..], to:[..], repeat: "Normal"|"Disabled"|{keys,delay_ms,interval_ms}, absorbing:[..]}]
  let mut mappings = Vec::new();
  for m in v.as_array().ok_or("layout not an array")? {
    let repeat = match &m["repeat"] {
      Value::String(s) if s == "Disabled" => keys::Repeat::Disabled,
      Value::Object(o) => keys::Repeat::Special {
        keys: keys_of(&o["keys"])?,
        delay_ms: o["delay_ms"].as_i64().ok_or("delay")? as i32,
        interval_ms: o["interval_ms"].as_i64().ok_or("interval")? as i32,
      },
      _ => keys::Repeat::Normal,
    };
    mappings.push(keys::Mapping {
      from: keys_of(&m["from"])?,
      to: keys_of(&m["to"])?,
      repeat,
      absorbing: if m["absorbing"].is_null() { vec![] } else { keys_of(&m["absorbing"])? },
    });
  }
  Ok(keys::Layout { mappings })
}

pub fn ev_json(e: &keys::Event) -> Value {
  match e {
    keys::Event::Pressed(k) => json!(["P", *k as i32]),
    keys::Event::Released(k) => json!(["R", *k as i32]),
  }
}

pub fn evs_json(evs: &Vec<keys::Event>) -> Value {
  Value::Array(evs.iter().map(ev_json).collect())
}

pub fn ev_of(v: &Value) -> Result<keys::Event, String> {
  let a = v.as_array().ok_or("event not an array")?;
  let k = key_of(&a[1])?;
  match a[0].as_str() {
    Some("P") => Ok(keys::Event::Pressed(k)),
    Some("R") => Ok(keys::Event::Released(k)),
    _ => Err("event kind".to_string()),
  }
}

fn repeat_json(r: &key_transforms::ResultingRepeat) -> Value {
  match r {
    key_transforms::ResultingRepeat::Disabled => json!("Disabled"),
    key_transforms::ResultingRepeat::NoChange => json!("NoChange"),
    key_transforms::ResultingRepeat::Repeating { keys, delay_ms, interval_ms } =>
      json!({"keys": keys.iter().map(|k| *k as i32).collect::<Vec<i32>>(), "delay_ms": delay_ms, "interval_ms": interval_ms}),
  }
}

fn do_mapper(req: &Value) -> Result<Value, String> {
  let layout = layout_of(&req["layout"])?;
  let mut mapper = key_transforms::Mapper::for_layout(&layout);
  let mut steps = Vec::new();
  for op in req["ops"].as_array().ok_or("ops")? {
    let a = op.as_array().ok_or("op")?;
    match a[0].as_str() {
      Some("RA") => {
        let evs = mapper.release_all();
        steps.push(json!({"events": evs_json(&evs), "repeat": "ReleaseAll"}));
      },
      Some("NEW") => {
        mapper = key_transforms::Mapper::for_layout(&layout);
        steps.push(json!({"events": [], "repeat": "New"}));
      },
      _ => {
        let r = mapper.step(ev_of(op)?);
        steps.push(json!({"events": evs_json(&r.events), "repeat": repeat_json(&r.repeat)}));
      }
    }
  }
  Ok(json!({"steps": steps}))
}

fn handle(req: &Value) -> Result<Value, String> {
  match req["kind"].as_str() {
    Some("ping") => Ok(json!({"pong": true, "input_event_size": std::mem::size_of::<libc::input_event>()})),
    Some("mapper") => do_mapper(req),
    Some(k) => replay_ext::handle_ext(k, req),
    None => Err("no kind".to_string()),
  }
}

fn main() {
  std::panic::set_hook(Box::new(|_| {}));
  let stdin = std::io::stdin();
  let stdout = std::io::stdout();
  for line in stdin.lock().lines() {
    let line = match line { Ok(l) => l, Err(_) => break };
    if line.trim().is_empty() { continue; }
    let req: Value = match serde_json::from_str(&line) {
      Ok(v) => v,
      Err(e) => { println!("{}", json!({"error": format!("bad request: {}", e)})); continue; }
    };
    let res = catch_unwind(AssertUnwindSafe(|| handle(&req)));
    let out = match res {
      Ok(Ok(v)) => json!({"ok": v}),
      Ok(Err(e)) => json!({"error": e}),
      Err(p) => {
        let msg = if let Some(s) = p.downcast_ref::<&str>() { s.to_string() }
                  else if let Some(s) = p.downcast_ref::<String>() { s.clone() }
                  else { "<panic>".to_string() };
        json!({"panic": msg})
      }
    };
    let mut o = stdout.lock();
    writeln!(o, "{}", out).unwrap();
    o.flush().unwrap();
  }
}
