// Included at the end of udev_utils.rs by the replay crate.
pub mod verif_replay {
  use super::*;
  use serde_json::{json, Value};

  pub fn service_text(req: &Value) -> Result<Value, String> {
    let pats: Vec<String> = req["excludes"].as_array().ok_or("excludes")?.iter().map(|v| v.as_str().unwrap_or("").to_string()).collect();
    let text = build_service_text(pats.iter().map(|s| s.as_str()));
    Ok(json!({"text": text}))
  }

  pub fn escape_char(req: &Value) -> Result<Value, String> {
    let c = std::char::from_u32(req["c"].as_u64().ok_or("c")? as u32).ok_or("not a scalar")?;
    Ok(json!({"text": escape_one_char(c)}))
  }
}
