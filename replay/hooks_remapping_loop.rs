// Included at the end of remapping_loop.rs by the replay crate: a scripted Driver for native replays.
pub mod verif_replay {
  use super::*;
  use serde_json::{json, Value};
  use std::collections::VecDeque;

  pub struct ScriptDriver {
    script: VecDeque<Value>,
    pub log: Vec<Value>,
    start: Instant,
    extra_ms: u64,
    pub diverged: Option<String>,
  }

  impl ScriptDriver {
    fn next(&mut self, call: &str, detail: Value) -> Result<Value, String> {
      let t = self.start.elapsed().as_secs_f64() * 1000.0;
      match self.script.pop_front() {
        None => {
          self.diverged = Some(format!("{} called after the end of the script", call));
          self.log.push(json!({"call": call, "t_ms": t, "detail": detail, "diverged": true}));
          Err("replay diverged".to_string())
        },
        Some(entry) => {
          if entry[0].as_str() != Some(call) {
            self.diverged = Some(format!("{} called but the script expected {}", call, entry[0]));
            self.log.push(json!({"call": call, "t_ms": t, "detail": detail, "diverged": true}));
            return Err("replay diverged".to_string());
          }
          self.log.push(json!({"call": call, "t_ms": t, "detail": detail, "result": entry}));
          Ok(entry)
        }
      }
    }
  }

  impl Driver for ScriptDriver {
    type PollRegistry = ();

    fn register_poll(&mut self) -> Result<(), String> {
      let e = self.next("register_poll", json!(null))?;
      if e[1].as_str() == Some("err") { return Err(e[2].as_str().unwrap_or("").to_string()); }
      Ok(())
    }

    fn poll(&mut self, _registry: &mut (), timeout: Option<Duration>) -> Result<PollResult, String> {
      let to = match timeout { None => json!(null), Some(d) => json!(d.as_secs_f64() * 1000.0) };
      let e = self.next("poll", json!({"timeout_ms": to}))?;
      match e[1].as_str() {
        Some("err") => Err(e[2].as_str().unwrap_or("").to_string()),
        Some("dev") => {
          let mut v = Vec::new();
          for d in e[2].as_array().unwrap() {
            if d.as_str() == Some("K") { v.push(Device::Keyboard) } else { v.push(Device::Tablet) }
          }
          Ok(PollResult::DeviceEvent(v))
        },
        Some("timeout") => {
          if e[2].as_bool() == Some(true) {
            if let Some(d) = timeout {
              let capped = std::cmp::min(d, Duration::from_millis(2000));
              let extra = e[3].as_u64().unwrap_or(self.extra_ms);
              std::thread::sleep(capped + Duration::from_millis(extra));
            }
          }
          Ok(PollResult::TimedOut)
        },
        _ => Ok(PollResult::Interrupted),
      }
    }

    fn next_keyboard(&mut self) -> Result<Next<Event>, String> {
      let e = self.next("next_keyboard", json!(null))?;
      match e[1].as_str() {
        Some("err") => Err(e[2].as_str().unwrap_or("").to_string()),
        Some("one") => Ok(Next::One(crate::ev_of(&e[2])?)),
        Some("end") => Ok(Next::End),
        _ => Ok(Next::Busy),
      }
    }

    fn next_tablet(&mut self) -> Result<Next<TableModeEvent>, String> {
      let e = self.next("next_tablet", json!(null))?;
      match e[1].as_str() {
        Some("err") => Err(e[2].as_str().unwrap_or("").to_string()),
        Some("one") => Ok(Next::One(if e[2].as_str() == Some("On") { TableModeEvent::On } else { TableModeEvent::Off })),
        Some("end") => Ok(Next::End),
        _ => Ok(Next::Busy),
      }
    }

    fn send(&mut self, evs: &Vec<Event>) -> Result<(), String> {
      let e = self.next("send", crate::evs_json(evs))?;
      if e[1].as_str() == Some("err") { return Err(e[2].as_str().unwrap_or("").to_string()); }
      Ok(())
    }
  }

  pub fn run_loop_script(req: &Value) -> Result<Value, String> {
    let layout = crate::layout_of(&req["layout"])?;
    let script: VecDeque<Value> = req["script"].as_array().ok_or("script")?.iter().cloned().collect();
    let mut d = ScriptDriver { script, log: Vec::new(), start: Instant::now(), extra_ms: req["extra_ms"].as_u64().unwrap_or(0), diverged: None };
    let r = do_remapping_loop_one_device(&mut d, layout, false);
    let res = match r { Ok(()) => json!({"Ok": null}), Err(e) => json!({"Err": e}) };
    Ok(json!({"result": res, "log": d.log, "diverged": d.diverged, "script_left": d.script.len()}))
  }
}

pub mod verif_select {
  use super::*;
  use serde_json::{json, Value};

  // Runs inside a private mount namespace prepared by the caller (fake /proc/bus/input/devices, /sys, /dev/input):
  // the real list_keyboards / flag_excluded / filter_devices_verbose.
  pub fn kbd_select(req: &Value) -> Result<Value, String> {
    let text = req["text"].as_str().ok_or("text")?;
    let mut out = crate::keyboard_listing::verif_replay::extract(text);
    let excludes: Vec<String> = req["excludes"].as_array().ok_or("excludes")?.iter().map(|v| v.as_str().unwrap_or("").to_string()).collect();
    let ex: Vec<&str> = excludes.iter().map(|s| s.as_str()).collect();
    if req["namespace"].as_bool() == Some(true) {
      let devs = list_keyboards(false).map_err(|e| format!("list_keyboards: {}", e))?;
      let flagged = flag_excluded(devs, &ex);
      let sel: Vec<String> = flagged.into_iter().filter(|e| !e.excluded).map(|e| e.extracted_keyboard.dev_path.to_string_lossy().to_string()).collect();
      out["selected_all"] = json!(sel);
      let nodes: Vec<String> = req["all_nodes"].as_array().ok_or("all_nodes")?.iter().map(|v| v.as_str().unwrap_or("").to_string()).collect();
      let node_refs: Vec<&str> = nodes.iter().map(|s| s.as_str()).collect();
      let sel2 = filter_devices_verbose(&node_refs, true, &ex, false)?;
      out["selected_dev_file"] = json!(sel2);
      let sel3 = filter_devices_verbose(&node_refs, false, &ex, false)?;
      out["selected_dev_file_any"] = json!(sel3);
    }
    Ok(out)
  }
}
