// Included at the end of keyboard_listing.rs by the replay crate.
pub mod verif_replay {
  use super::*;
  use serde_json::{json, Value};

  pub fn extract(text: &str) -> Value {
    let k1 = extract_keyboards_from_proc_bus_input_devices(text, false);
    let k2 = extract_input_devices_from_proc_bus_input_devices(text, false);
    json!({
      "keyboards": k1.iter().map(|k| k.sysfs_path.clone()).collect::<Vec<String>>(),
      "keyboard_names": k1.iter().map(|k| k.name.clone()).collect::<Vec<String>>(),
      "input_devices": k2.iter().map(|k| json!([k.sysfs_path, k.name, k.is_keyboard])).collect::<Vec<Value>>(),
    })
  }
}
