// Further extension requests, added per property group.
use serde_json::{json, Value};

pub fn handle_ext2(kind: &str, req: &Value) -> Result<Value, String> {
  match kind {
    "loop" => crate::remapping_loop::verif_replay::run_loop_script(req),
    "service_text" => crate::udev_utils::verif_replay::service_text(req),
    "escape_char" => crate::udev_utils::verif_replay::escape_char(req),
    "kbd_select" => crate::remapping_loop::verif_select::kbd_select(req),
    "uinput_write" => crate::dev_input_rw::verif_replay::uinput_write(req),
    "uinput_read" => crate::dev_input_rw::verif_replay::uinput_read(req),
    _ => Err(format!("unknown request kind {}", kind)),
  }
}
