// Further extension requests, added per property group.
use serde_json::{json, Value};

pub fn handle_ext2(kind: &str, req: &Value) -> Result<Value, String> {
  match kind {
    "loop" => crate::remapping_loop::verif_replay::run_loop_script(req),
    _ => Err(format!("unknown request kind {}", kind)),
  }
}
