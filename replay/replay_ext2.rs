// Further extension requests, added per property group.
use serde_json::{json, Value};

pub fn handle_ext2(kind: &str, req: &Value) -> Result<Value, String> {
  Err(format!("unknown request kind {}", kind))
}
