"""C13, C14, C15: the loader pipeline parse_layout_from_json -> convert (-> Mapper::for_layout/step)
executed from MIR on serde_json::Value trees with symbolic leaves."""
import itertools
import json
import os
import random
import time

import z3

from . import mapper, corpus
from .checklib import log, Outcome, write_evidence
from .frontend import load_program, Native, REPO
from .interp import Interp
from .keytheory import KeyTheory
from .serdemodel import from_python, to_python, serialize_value
from .symstr import SStr
from .values import (Cell, Ref, Adt, VecV, MapV, EnumC, Sym, Opaque, Panic, Unsupported, PathInfeasible, Violation, UNIT)

F_PARSE = F_CONVERT = None
NAMES = None        # key code -> serde name
INVN = None


def setup(prog, native):
    global F_PARSE, F_CONVERT, NAMES, INVN
    mapper.init(prog)
    F_PARSE = prog.find_fn('parse_layout_from_json')
    F_CONVERT = prog.find_fn('convert')
    r = native.ask({'kind': 'key_names'})
    NAMES = {n: ser for n, disp, ser in r['ok']}
    INVN = {v: k for k, v in NAMES.items()}


def explore(fn, max_paths=200000):
    """run fn(it) for every path (decision replay). fn returns a result or raises Violation/Panic.
    yields (it, outcome) where outcome = ('ok', result) | ('viol', Violation) | ('panic', msg)"""
    work = [[]]
    n = 0
    while work:
        d = work.pop()
        it = Interp(mapper.PROG, d, keys=KeyTheory(mapper.DOMAIN))
        try:
            res = ('ok', fn(it))
        except Violation as v:
            res = ('viol', v)
        except Panic as e:
            res = ('panic', str(e))
        except PathInfeasible:
            work.extend(it.new_branches)
            continue
        work.extend(it.new_branches)
        n += 1
        yield it, res
        if n >= max_paths:
            raise Unsupported('path budget exceeded')


# --------------------------------------------------------------------------- basic layouts as values
def kv(k):
    if isinstance(k, str):
        return EnumC('KeyCode', Sym(k))
    return EnumC('KeyCode', k)


def basic_layout_val(maps):
    out = []
    for m in maps:
        rep = m['rep']
        if rep[0] == 'Special':
            r = Adt('Repeat', 'Special', [VecV([kv(x) for x in rep[1]]), rep[2], rep[3]])
        else:
            r = Adt('Repeat', rep[0], [])
        out.append(Adt('Mapping', None, [VecV([kv(x) for x in m['frm']]), VecV([kv(x) for x in m['to']]), r, VecV([kv(x) for x in m.get('absb', [])])]))
    return Adt('Layout', None, [VecV(out)])


def layout_to_py(it, lay, model=None):
    """Layout value -> python structure (for reports / native replay); key symbols resolved through the theory"""
    def key(e):
        d = e.d
        if isinstance(d, Sym):
            d = it.keys.canon(d.name)
            if isinstance(d, str) and model is not None:
                d = model.get(d, d)
        return d
    out = []
    for m in lay.f[0].items:
        rep = m.f[2]
        if rep.variant == 'Special':
            def num(x):
                if isinstance(x, Opaque):
                    x = x.term
                return x
            r = {'keys': [key(x) for x in rep.f[0].items], 'delay_ms': num(rep.f[1]), 'interval_ms': num(rep.f[2])}
        else:
            r = rep.variant
        out.append({'from': [key(x) for x in m.f[0].items], 'to': [key(x) for x in m.f[1].items], 'repeat': r,
                    'absorbing': [key(x) for x in m.f[3].items]})
    return out


def same_layout(it, a, b, stats):
    """validity of a == b under the path condition (symbolic numbers decided by z3)"""
    if len(a) != len(b):
        return 'number of mappings differs (%d vs %d)' % (len(a), len(b))
    for i, (x, y) in enumerate(zip(a, b)):
        for fld in ('from', 'to', 'absorbing'):
            if x[fld] != y[fld]:
                return 'mapping %d: `%s` differs: %r vs %r' % (i, fld, x[fld], y[fld])
        rx, ry = x['repeat'], y['repeat']
        if isinstance(rx, dict) != isinstance(ry, dict):
            return 'mapping %d: repeat differs: %r vs %r' % (i, rx, ry)
        if isinstance(rx, dict):
            if rx['keys'] != ry['keys']:
                return 'mapping %d: repeat keys differ: %r vs %r' % (i, rx['keys'], ry['keys'])
            for fld in ('delay_ms', 'interval_ms'):
                p, q = rx[fld], ry[fld]
                if isinstance(p, int) and isinstance(q, int):
                    if p != q:
                        return 'mapping %d: %s differs: %r vs %r' % (i, fld, p, q)
                else:
                    stats['queries'] += 1
                    pt = p if z3.is_expr(p) else z3.BitVecVal(p, 32)
                    qt = q if z3.is_expr(q) else z3.BitVecVal(q, 32)
                    if it.check_sat(pt != qt):
                        return 'mapping %d: %s differs for some values: %s vs %s' % (i, fld, p, q)
        elif rx != ry:
            return 'mapping %d: repeat differs: %r vs %r' % (i, rx, ry)
    return None


def load_value(it, value):
    """parse_layout_from_json + convert on a Value. returns ('ok', Layout) | ('rejected', msg)"""
    r = it.run(F_PARSE, [Ref(Cell(value))])
    if r.variant == 'Err':
        return 'rejected', r.f[0]
    r2 = it.run(F_CONVERT, [Ref(Cell(r.f[0]))])
    if r2.variant == 'Err':
        return 'rejected', r2.f[0]
    return 'ok', r2.f[0]


# =========================================================================== C15
def c15_shapes(tier, rng):
    """basic layouts the converter can produce: structure concrete, one key position symbolic at a time"""
    KC = mapper.KC
    A, B, C, D, E = KC['A'], KC['B'], KC['C'], KC['D'], KC['E']
    LS, RS, LC, CAPS = KC['LEFTSHIFT'], KC['RIGHTSHIFT'], KC['LEFTCTRL'], KC['CAPSLOCK']
    d0, i0 = Opaque('delay0'), Opaque('interval0')
    N = ('Normal', None, None, None)
    DIS = ('Disabled', None, None, None)
    shapes = []
    base = [
        [dict(frm=[A], to=[B], rep=N)],
        [dict(frm=[CAPS], to=[], rep=N), dict(frm=[CAPS, A], to=[LS, B], rep=DIS)],
        [dict(frm=[LS, A], to=[LS, B], rep=N, absb=[LS])],
        [dict(frm=[LS, LC, A], to=[C], rep=('Special', [D], d0, i0), absb=[LS, LC])],
        [dict(frm=[A], to=[A], rep=('Special', [], d0, i0))],
        [dict(frm=[CAPS, RS, A], to=[B, C, D], rep=('Special', [LC, E], d0, i0), absb=[RS])],
        [dict(frm=[A], to=[B], rep=N), dict(frm=[A], to=[C], rep=DIS)],
    ]
    for maps in base:
        shapes.append(('concrete-keys', maps))
    # one symbolic key per position
    positions = [
        ('from-final/3-key-trigger', [dict(frm=[CAPS, RS, 's'], to=['s'], rep=DIS, absb=[RS]), dict(frm=[A], to=[], rep=N)]),
        ('to-middle', [dict(frm=[A], to=[LC, 's', B], rep=('Special', ['s'], d0, i0))]),
        ('from-final', [dict(frm=[LS, 's'], to=[B], rep=N)]),
        ('from-modifier', [dict(frm=['s', A], to=[B], rep=N)]),
        ('to', [dict(frm=[A], to=[LS, 's'], rep=N)]),
        ('absorbing', [dict(frm=['s', A], to=[B], rep=N, absb=['s'])]),
        ('repeat-keys', [dict(frm=[A], to=[A], rep=('Special', [LC, 's'], d0, i0))]),
    ]
    for nm, maps in positions:
        shapes.append(('symbolic-key/' + nm, maps))
    if True:
        for _ in range(12 if tier == 'quick' else 60):
            maps = []
            for _m in range(rng.choice([1, 2, 3])):
                pre = rng.sample([LS, RS, LC, CAPS, KC['TAB']], rng.choice([0, 1, 2]))
                fin = rng.choice([A, B, C, KC['K1'], KC['K102ND'], KC['SEMICOLON']])
                to = rng.sample([LS, LC, D, E, KC['F21'], KC['K0']], rng.choice([0, 1, 2, 3]))
                rk = rng.choice([N, DIS, ('Special', rng.sample([LC, E, KC['F24']], rng.choice([0, 1, 2])), Opaque('delay%d' % _m), Opaque('interval%d' % _m))])
                maps.append(dict(frm=pre + [fin], to=to, rep=rk, absb=[k for k in pre if rng.random() < 0.5]))
            shapes.append(('random', maps))
    return shapes


def check_c15(tier, seed):
    t0 = time.time()
    prog = load_program()
    native = Native()
    setup(prog, native)
    oc = Outcome('C15')
    rng = random.Random(seed)
    stats = {'paths': 0, 'queries': 0, 'mir_steps': 0, 'shapes': 0}
    f_ser = prog.method('Layout', 'serialize', module='keys', trait='Serialize')
    viols = []
    samples = []
    global _C15_SHAPES, _C15_FSER
    _C15_SHAPES = c15_shapes(tier, rng)
    _C15_FSER = f_ser
    import multiprocessing as mp
    # the symbolic-key shapes are split by key-code range so that the 484 paths of one shape spread over the cores
    tasks = []
    for i, (nm, maps) in enumerate(_C15_SHAPES):
        if nm.startswith('symbolic-key'):
            rngs = KeyTheory.domain_ranges(mapper.DOMAIN)
            codes = sorted(mapper.DOMAIN)
            chunk = 31
            for j in range(0, len(codes), chunk):
                tasks.append((i, codes[j], codes[min(j + chunk, len(codes)) - 1]))
        else:
            tasks.append((i, None, None))
    pool = mp.Pool(int(os.environ.get('VERIF_JOBS', '16')))
    seen_shapes = set()
    try:
        for i, npaths, steps, q, vs, smp in pool.imap_unordered(_c15_worker, tasks):
            if i not in seen_shapes:
                seen_shapes.add(i)
                stats['shapes'] += 1
            stats['paths'] += npaths
            stats['mir_steps'] += steps
            stats['queries'] += q
            viols.extend(vs)
            if len(samples) < 3:
                samples.extend(smp[:1])
    finally:
        pool.terminate()
    log('[C15] %d shapes, %d paths, %d symbolic violations' % (stats['shapes'], stats['paths'], len(viols)))
    # second leg: the layouts the converter really produces from shorthand files (the C14 grammar's accepted derivations)
    from . import parexplore
    gstats = {'paths': 0, 'accepted': 0, 'rejected': 0, 'queries': 0}
    for stage in C15_GRAMMAR_STAGES:
        outs, npaths, steps, z3c = parexplore.run('mirsym.convcheck', 'c15_grammar_path', (stage,), 'c15_grammar_summary', cut_at=2)
        gstats['paths'] += npaths
        stats['mir_steps'] += steps
        for kind, what, q, program, conc in outs:
            if kind == 'ok':
                gstats[what] += 1
                gstats['queries'] += q
            elif kind == 'viol':
                viols.append(('converted: ' + what, conc))
            elif kind == 'unsupported':
                oc.inconclusive.append('unsupported construct on a grammar path: %s' % what)
        log('[C15] grammar stage %-12s done (%.1fs)' % (stage, time.time() - t0))
    stats['queries'] += gstats['queries']
    # native confirmation
    seen = {}
    for what, conc in viols:
        role = what.split(':')[0]
        if seen.get(role, 0) >= 3:
            continue
        seen[role] = seen.get(role, 0) + 1
        if conc is None:
            oc.inconclusive.append('symbolic violation without a concrete layout: ' + what)
            continue
        r = native.ask({'kind': 'save_reload', 'layout': conc})
        case = {'kind': 'save_reload', 'layout': conc, 'property': 'C15', 'what': what}
        if 'panic' in r:
            oc.violations.append((role, 'save/reload panicked natively: %s' % r['panic'], case))
        elif 'ok' in r and r['ok'].get('same') is False:
            case['native'] = r['ok']
            oc.violations.append((role, 'layout %r saved as %s reloads as %r' % (conc, r['ok'].get('saved'), r['ok'].get('reloaded', r['ok'].get('rejected'))), case))
        else:
            oc.inconclusive.append('ENGINE-MISMATCH (symbolic violation not reproduced natively): %s on %r -> %r' % (what, conc, r))
    # differential validation: serialisation of concrete layouts through MIR + model serializer vs serde_json natively
    validated = 0
    for nm, maps in c15_shapes('quick', rng)[:7]:
        it = Interp(prog, keys=KeyTheory(mapper.DOMAIN))
        conc_maps = []
        for m in maps:
            rep = m['rep']
            if rep[0] == 'Special':
                rep = ('Special', rep[1], 130, 30)
            conc_maps.append(dict(m, rep=rep))
        lay = basic_layout_val(conc_maps)
        r = it.run(f_ser, [Ref(Cell(lay)), Adt('ValueSerializer', None, [])])
        mine = to_python(r.f[0])
        nat = native.ask({'kind': 'save_reload', 'layout': layout_to_py(it, lay)})
        validated += 1
        if 'ok' not in nat or json.loads(nat['ok']['saved']) != _names(mine):
            oc.inconclusive.append('model serializer disagrees with serde_json on %s: %r vs %r' % (nm, _names(mine), nat))
            break
    native.close()
    cov = {
        'explanation': 'derived Serialize impls of Layout/Mapping/Repeat/KeyCode (crate MIR) run against a model serializer producing a serde_json::Value, then parse_layout_from_json + convert (crate MIR) on that Value; '
                       'the reloaded layout must equal the original: keys compared per path (a symbolic key forks into its 484 written names, each parsed back by the real parse_key_code/KeyCode::from_str trie), delay/interval compared by validity queries over all i32',
        'evaluations': stats['paths'], 'distinct_nontrivial': stats['paths'],
        'rule': 'one evaluation = one symbolic path (layout shape x key code of the symbolic position); distinct by construction',
        'samples': samples or [{'shape': 'symbolic-key/from-final', 'note': '484 paths, one per key code'}],
        'shapes': stats['shapes'], 'paths': stats['paths'], 'mir_statements_executed': stats['mir_steps'],
        'solver': {'validity queries on delay/interval (symbolic i32)': stats['queries']},
        'traces_validated_against_impl': validated,
        'functions_encoded': ['<keys::Layout/Mapping/Repeat as Serialize>::serialize', '<KeyCode as Serialize>::serialize', 'parse_layout_from_json and all parse_* callees', 'KeyCode::from_str (_parse trie)', 'convert and callees'],
        'models': ['serde Serializer data model -> Value (serdemodel.py)', 'serde_json::Map as sorted association list', 'String/str models'],
        'bounds': 'layouts of <= 3 mappings, triggers <= 3 keys, outputs <= 3 keys, chords <= 2 keys; every key code in each of seven positions (from-final, from-modifier, to, to-middle + repeat key, absorbing, repeat keys, final of a three-key trigger that is also the output)',
        'converted_layouts_leg': {'what': 'every derivation of the shorthand grammar of C14 (stages %r) that parse_layout_from_json + convert accept is serialised, reloaded and compared the same way, '
                                          'so "what the converter can produce" is decided by the real converter (aliases, rows, repeat-only entries, absorbing, symbolic 64-bit timings)' % (C15_GRAMMAR_STAGES,),
                                  'paths': gstats['paths'], 'accepted_and_round_tripped': gstats['accepted'], 'rejected_by_the_loader': gstats['rejected']},
    }
    rc = oc.report()
    write_evidence('C15', tier, seed, cov, ['the model serializer\'s correspondence to serde_json\'s writer (checked on concrete layouts natively every run)',
                                            'bytes on disk = serde_json text of that Value (serde_json\'s writer/parser are dependency code)'], time.time() - t0, len(oc.violations))
    return rc


def _names(v):
    return v


def _concretise_layout(it, lay):
    syms = set()
    for m in lay:
        for fld in ('from', 'to', 'absorbing'):
            for k in m[fld]:
                if isinstance(k, str):
                    syms.add(k)
        if isinstance(m['repeat'], dict):
            for k in m['repeat']['keys']:
                if isinstance(k, str):
                    syms.add(k)
    sat, model = it.keys.solve(syms)
    zm = it.model() if it.solver is not None else None

    def kc(k):
        return model.get(k, 30) if isinstance(k, str) else k

    def num(x):
        if isinstance(x, int):
            return x
        if zm is not None:
            try:
                v = zm.eval(x, model_completion=True).as_long()
                return v - (1 << 32) if v >= (1 << 31) else v
            except Exception:
                pass
        return 130
    out = []
    for m in lay:
        r = m['repeat']
        if isinstance(r, dict):
            r = {'keys': [kc(k) for k in r['keys']], 'delay_ms': num(r['delay_ms']), 'interval_ms': num(r['interval_ms'])}
        out.append({'from': [kc(k) for k in m['from']], 'to': [kc(k) for k in m['to']], 'repeat': r, 'absorbing': [kc(k) for k in m['absorbing']]})
    return out


# =========================================================================== C13: reference expansion
US_ROWS = {
    '`': ['GRAVE', '1', '2', '3', '4', '5', '6', '7', '8', '9', '0', 'MINUS', 'EQUAL'],
    '1': ['1', '2', '3', '4', '5', '6', '7', '8', '9', '0', 'MINUS', 'EQUAL'],
    'Q': ['Q', 'W', 'E', 'R', 'T', 'Y', 'U', 'I', 'O', 'P', 'LEFTBRACE', 'RIGHTBRACE'],
    'A': ['A', 'S', 'D', 'F', 'G', 'H', 'J', 'K', 'L', 'SEMICOLON', 'APOSTROPHE'],
    'Z': ['Z', 'X', 'C', 'V', 'B', 'N', 'M', 'COMMA', 'DOT', 'SLASH'],
}
# independent table of the 94 printable US-QWERTY characters: (unshifted, shifted, key name)
_US_KEYS = [('`', '~', 'GRAVE'), ('1', '!', '1'), ('2', '@', '2'), ('3', '#', '3'), ('4', '$', '4'), ('5', '%', '5'), ('6', '^', '6'),
            ('7', '&', '7'), ('8', '*', '8'), ('9', '(', '9'), ('0', ')', '0'), ('-', '_', 'MINUS'), ('=', '+', 'EQUAL'),
            ('[', '{', 'LEFTBRACE'), (']', '}', 'RIGHTBRACE'), ('\\', '|', 'BACKSLASH'), (';', ':', 'SEMICOLON'), ("'", '"', 'APOSTROPHE'),
            (',', '<', 'COMMA'), ('.', '>', 'DOT'), ('/', '?', 'SLASH')] + [(c, c.upper(), c.upper()) for c in 'abcdefghijklmnopqrstuvwxyz']
US_CHARS = {}
for _lo, _hi, _k in _US_KEYS:
    US_CHARS[_lo] = (False, _k)
    US_CHARS[_hi] = (True, _k)
STD_MODS = ('LEFTSHIFT', 'RIGHTSHIFT', 'LEFTALT', 'RIGHTALT', 'LEFTCTRL', 'RIGHTCTRL', 'LEFTMETA', 'RIGHTMETA')


class RefReject(Exception):
    pass


def _aslist(x):
    return list(x) if isinstance(x, list) else [x]


def ref_expand(program):
    """hand-written expansion of a layout program (python/JSON form, key names as strings) into basic mappings.
    returns list of blocks; block = list of dict(from,to,repeat,absorbing) with key names. Raises RefReject when the
    program is outside what the reference defines (undefined alias, unknown char ...)."""
    maps = program['mappings']
    aliases = {}
    for m in maps:
        if 'to' in m:
            t = _aslist(m['to'])
            if t and isinstance(t[-1], str) and t[-1].startswith('@'):
                aliases.setdefault(t[-1], []).append(_aslist(m['from']))

    def combos(mods):
        names = [x for x in mods if isinstance(x, str) and x.startswith('@')]
        for n in names:
            if n not in aliases:
                raise RefReject('undefined alias ' + n)
        if len(set(names)) != len(names):
            raise RefReject('alias used twice in one trigger')
        choices = [range(len(aliases[n])) for n in names]
        for tup in itertools.product(*choices):
            chosen = dict(zip(names, tup))
            yield chosen

    def reify(mods, chosen):
        out = []
        for x in mods:
            if x.startswith('@'):
                if x not in chosen:
                    raise RefReject('output alias not on the trigger side')
                out.extend(aliases[x][chosen[x]])
            else:
                out.append(x)
        return out

    def repeat_single(rep, chosen):
        if rep is None:
            return 'Normal'
        if isinstance(rep, str):
            return rep.capitalize()
        sp = rep['Special']
        keys = _aslist(sp['keys'])
        return {'keys': reify(keys, chosen) if keys else [], 'delay_ms': sp['delay_ms'], 'interval_ms': sp['interval_ms']}

    def letters_to(ch, to_mods, from_keys):
        if ch == ' ':
            return None
        if ch not in US_CHARS:
            raise RefReject('unknown char')
        sh, k = US_CHARS[ch]
        out = list(to_mods)
        if sh:
            s_ = 'RIGHTSHIFT' if 'RIGHTSHIFT' in from_keys else 'LEFTSHIFT'
            if s_ not in out:
                out.append(s_)      # the Shift the character needs, unless the output already holds it
        out.append(k)
        return out
    blocks = []
    for m in maps:
        frm = _aslist(m['from'])
        block = []
        if 'to' not in m:
            blocks.append(block)     # repeat-only: applied afterwards
            continue
        to = _aslist(m['to'])
        if to and isinstance(to[-1], str) and to[-1].startswith('@'):
            if not (len(frm) == 1 and frm[0] in STD_MODS):
                block.append({'from': frm, 'to': to[:-1], 'repeat': 'Normal', 'absorbing': []})
            blocks.append(block)
            continue
        absb = _aslist(m.get('absorbing', []))
        if isinstance(frm[-1], dict):
            row = US_ROWS[frm[-1]['row'].upper()]
            tmods, letters = to[:-1], to[-1]['letters']
            rep = m.get('repeat')
            for chosen in combos(frm[:-1]):
                fmods = reify(frm[:-1], chosen)
                tm = reify(tmods, chosen)
                for i, ch in enumerate(letters):
                    if i >= len(row):
                        raise RefReject('row too long')
                    out = letters_to(ch, tm, fmods)
                    if out is None:
                        continue
                    if rep is None:
                        r = 'Normal'
                    elif isinstance(rep, str):
                        r = rep.capitalize()
                    else:
                        sp = rep['Special']
                        rk = _aslist(sp['keys'])
                        rl = rk[-1]['letters']
                        if len(rl) > len(letters):
                            raise RefReject('repeat longer than to')
                        rkeys = letters_to(rl[i], reify(rk[:-1], chosen), fmods) if i < len(rl) else None
                        r = 'Normal' if rkeys is None else {'keys': rkeys, 'delay_ms': sp['delay_ms'], 'interval_ms': sp['interval_ms']}
                    block.append({'from': fmods + [row[i]], 'to': out, 'repeat': r, 'absorbing': reify(absb, chosen)})
        else:
            for chosen in combos(frm[:-1]):
                fk = reify(frm[:-1], chosen) + [frm[-1]]
                out = (reify(to[:-1], chosen) + [to[-1]]) if to else []
                block.append({'from': fk, 'to': out, 'repeat': repeat_single(m.get('repeat'), chosen), 'absorbing': reify(absb, chosen)})
        blocks.append(block)
    # repeat-only entries, in source order
    flat_index = []
    for bi, b in enumerate(blocks):
        for mi in range(len(b)):
            flat_index.append((bi, mi))
    extra = []
    for m in maps:
        if 'to' in m:
            continue
        frm = _aslist(m['from'])
        for chosen in combos(frm[:-1]):
            fk = reify(frm[:-1], chosen) + [frm[-1]]
            r = repeat_single(m.get('repeat'), chosen)
            hit = False
            for b in blocks + [extra]:
                for bm in b:
                    if sorted(bm['from'][:-1]) == sorted(fk[:-1]) and bm['from'][-1] == fk[-1]:
                        if b is extra and not bm.get('_table', False):
                            continue        # identity mappings added by earlier repeat-only entries are not in the table
                        bm['repeat'] = r
                        hit = True
            if not hit:
                extra.append({'from': fk, 'to': list(fk), 'repeat': r, 'absorbing': []})
    blocks.append(extra)
    return blocks


def names_to_codes(blocks):
    def kc(n):
        return INVN[n]
    out = []
    for b in blocks:
        nb = []
        for m in b:
            r = m['repeat']
            if isinstance(r, dict):
                r = {'keys': [kc(k) for k in r['keys']], 'delay_ms': r['delay_ms'], 'interval_ms': r['interval_ms']}
            nb.append({'from': [kc(k) for k in m['from']], 'to': [kc(k) for k in m['to']], 'repeat': r, 'absorbing': [kc(k) for k in m['absorbing']]})
        out.append(nb)
    return out


def compare_blocks(real, blocks):
    """real: flat list of mappings (python, codes); blocks: reference blocks. order inside a block is free."""
    total = sum(len(b) for b in blocks)
    if len(real) != total:
        return 'the converter produced %d mappings, the hand-written expansion has %d' % (len(real), total)
    pos = 0
    for bi, b in enumerate(blocks):
        chunk = real[pos:pos + len(b)]
        pos += len(b)
        key = lambda m: json.dumps(m, sort_keys=True, default=str)
        if sorted(map(key, chunk)) != sorted(map(key, b)):
            return 'source mapping %d expands to %s, the hand-written expansion is %s' % (bi, _short(chunk), _short(b))
    return None


def _short(ms):
    def nm(k):
        return NAMES.get(k, k)
    out = []
    for m in ms[:6]:
        r = m['repeat']
        if isinstance(r, dict):
            r = 'Special(%s,%s,%s)' % ([nm(k) for k in r['keys']], r['delay_ms'], r['interval_ms'])
        out.append('%s->%s %s%s' % ([nm(k) for k in m['from']], [nm(k) for k in m['to']], r, (' abs ' + str([nm(k) for k in m['absorbing']])) if m['absorbing'] else ''))
    return '; '.join(out) + (' ...' if len(ms) > 6 else '')


SYMCH = '␟'     # placeholder character marking the symbolic letter position in a program


def c13_programs(tier, rng):
    quick = tier == 'quick'
    P = []
    shift = [{'from': 'LEFTSHIFT', 'to': '@shift'}, {'from': 'RIGHTSHIFT', 'to': '@shift'}]
    sym = [{'from': 'CAPSLOCK', 'to': '@symbol'}, {'from': 'RIGHTALT', 'to': '@symbol'}]
    hyper = [{'from': ['LEFTCTRL', 'LEFTALT'], 'to': ['LEFTMETA', '@hyper']}, {'from': 'TAB', 'to': ['LEFTCTRL', '@hyper']}]
    sp = lambda keys: {'Special': {'keys': keys, 'delay_ms': 180, 'interval_ms': 30}}
    # --- rows with one symbolic letter
    base_letters = {'`': '~!@#$%^&*()_+', '1': 'aB3$ x.Y/Z;,', 'Q': "',.pyf gcrl/", 'A': 'aoeu idhtn-', 'Z': ';qjkxbm wv'}
    rows = ['`', '1', 'Q', 'A', 'Z']
    for row in rows:
        L = len(US_ROWS[row])
        positions = list(range(L))
        for p in positions:
            letters = base_letters[row][:L]
            letters = letters[:p] + SYMCH + letters[p + 1:]
            cfg = rng.randrange(1, 4) if quick else None
            variants = [
                {'mappings': [{'from': {'row': row}, 'to': {'letters': letters}}]},
                {'mappings': shift + [{'from': ['@shift', {'row': row.lower()}], 'to': {'letters': letters}, 'absorbing': '@shift'}]},
                {'mappings': [{'from': ['RIGHTSHIFT', 'CAPSLOCK', {'row': row}], 'to': ['LEFTCTRL', {'letters': letters}], 'repeat': 'disabled'}]},
                {'mappings': shift + sym + [{'from': ['@symbol', '@shift', {'row': row}], 'to': ['@symbol', {'letters': letters}],
                                             'repeat': sp(['@shift', {'letters': letters[:max(1, p)].replace(SYMCH, 'z')}])}]},
            ]
            if p in (0, L - 1):
                # right Shift in the trigger, Special repeat whose letters need a Shift that the repeat itself does not list
                shifted = ''.join(ch.upper() if ch.isalpha() else {'`': '~', '1': '!', ';': ':', ',': '<', '.': '>', '/': '?', '-': '_', "'": '"'}.get(ch, ch)
                                  for ch in base_letters[row][:L])
                variants.append({'mappings': [{'from': ['RIGHTSHIFT', {'row': row}], 'to': {'letters': letters},
                                               'repeat': sp({'letters': shifted[:max(2, p)]})}]})
                variants.append({'mappings': shift + [{'from': ['@shift', 'LEFTCTRL', {'row': row}], 'to': ['LEFTCTRL', {'letters': letters}],
                                                       'repeat': sp(['LEFTALT', {'letters': shifted[:3]}])}]})
            for vi, v in enumerate(variants):
                if cfg is None or vi == cfg or vi == 0 or vi >= 4:
                    P.append(('row %s pos %d variant %d' % (row, p, vi), v))
    # symbolic letter inside the repeat letters
    P.append(('row repeat letters', {'mappings': [{'from': ['CAPSLOCK', {'row': 'A'}], 'to': {'letters': 'hjkl'}, 'repeat': sp({'letters': 'a' + SYMCH + ' '})}]}))
    # --- aliases, singles, repeat-only, spellings (concrete)
    C = [
        ('alias basic', {'mappings': shift + [{'from': ['@shift', 'SPACE'], 'to': 'BACKSPACE'}]}),
        ('alias output side', {'mappings': shift + sym + [{'from': ['@symbol', '@shift', 'S'], 'to': ['RIGHTALT', '@shift', 'S'], 'absorbing': ['@shift']}]}),
        ('alias plain before alias', {'mappings': shift + sym + [{'from': ['LEFTCTRL', '@shift', '@symbol', 'J'], 'to': ['@shift', 'LEFT'], 'repeat': sp(['@symbol', 'F21'])}]}),
        ('alias plain between', {'mappings': shift + sym + [{'from': ['@shift', 'LEFTCTRL', '@symbol', 'J'], 'to': ['@symbol', '@shift', 'K']}]}),
        ('alias multi-key defs', {'mappings': hyper + [{'from': ['@hyper', 'A'], 'to': ['@hyper', 'B'], 'absorbing': '@hyper'}, {'from': ['@hyper', 'C'], 'to': []}]}),
        ('three aliases', {'mappings': shift + sym + [{'from': 'LEFTCTRL', 'to': '@c'}, {'from': 'LEFTALT', 'to': '@c'},
                                                     {'from': ['@c', '@symbol', '@shift', 'X'], 'to': ['@shift', '@c', 'Y']}]}),
        ('three defs', {'mappings': shift + [{'from': 'CAPSLOCK', 'to': '@shift'}, {'from': ['@shift', 'A'], 'to': 'B'}, {'from': ['@shift', {'row': 'Z'}], 'to': ['@shift', {'letters': 'a?'}]}]}),
        ('alias with extra output', {'mappings': [{'from': 'CAPSLOCK', 'to': ['LEFTCTRL', '@ctl']}, {'from': ['@ctl', 'A'], 'to': 'B'}]}),
        ('repeat-only after', {'mappings': [{'from': 'J', 'to': 'DOWN'}, {'from': ['CAPSLOCK', 'LEFTCTRL', 'J'], 'to': 'PAGEDOWN'},
                                            {'from': 'J', 'repeat': sp('F21')}, {'from': ['LEFTCTRL', 'CAPSLOCK', 'J'], 'repeat': 'Disabled'}]}),
        ('repeat-only before', {'mappings': [{'from': 'J', 'repeat': sp(['F21'])}, {'from': 'J', 'to': 'DOWN'}, {'from': 'K', 'to': 'UP', 'repeat': 'Disabled'}]}),
        ('repeat-only no target', {'mappings': [{'from': 'K', 'to': 'UP'}, {'from': ['RIGHTALT', 'J'], 'repeat': sp([])}, {'from': 'L', 'repeat': 'disabled'}]}),
        ('repeat-only alias', {'mappings': shift + [{'from': ['@shift', 'J'], 'to': 'DOWN'}, {'from': ['@shift', 'J'], 'repeat': sp(['@shift', 'F21'])},
                                                   {'from': ['@shift', 'K'], 'repeat': 'Disabled'}]}),
        ('repeat-only other modifier order', {'mappings': shift + sym + [{'from': ['@shift', '@symbol', 'SPACE'], 'to': 'BACKSPACE'},
                                                                        {'from': ['@symbol', '@shift', 'SPACE'], 'repeat': 'Disabled'},
                                                                        {'from': ['LEFTCTRL', 'LEFTALT', 'J'], 'to': 'DOWN'},
                                                                        {'from': ['LEFTALT', 'LEFTCTRL', 'J'], 'repeat': sp('F21')}]}),
        ('repeat-only on row', {'mappings': [{'from': ['CAPSLOCK', {'row': 'A'}], 'to': {'letters': 'hjkl'}}, {'from': ['CAPSLOCK', 'S'], 'repeat': sp('F22')},
                                             {'from': ['CAPSLOCK', 'A'], 'repeat': 'Disabled'}]}),
        ('two repeat-only same trigger', {'mappings': [{'from': 'J', 'repeat': 'Disabled'}, {'from': 'J', 'repeat': sp('F21')}]}),
        ('duplicate triggers', {'mappings': [{'from': 'A', 'to': 'B'}, {'from': 'A', 'to': 'C'}, {'from': 'A', 'repeat': 'Disabled'}]}),
        ('empty outputs', {'mappings': [{'from': 'CAPSLOCK', 'to': []}, {'from': ['CAPSLOCK', 'Q'], 'to': ['ESC'], 'repeat': 'DISABLED', 'absorbing': ['CAPSLOCK']}]}),
    ]
    P += C
    P += c13_random_programs(rng, 120 if quick else 1200)
    return P


def c13_random_programs(rng, n):
    """random well-formed layout programs over every shorthand (alias definitions with 1-3 definitions, singles, rows,
    repeat-only entries of every mode aimed at single, row-generated and unmapped triggers) in a random source order:
    an alias may be defined after its first use, a repeat-only entry may precede its target. Only programs that are valid by
    construction (no key twice in a list, absorbed keys and output/repeat aliases taken from the trigger) are produced."""
    sp = lambda keys: {'Special': {'keys': keys, 'delay_ms': rng.choice([180, 0, 250]), 'interval_ms': rng.choice([30, 1, 45])}}
    out = []
    alias_pool = {'@shift': [['LEFTSHIFT'], ['RIGHTSHIFT']], '@symbol': [['CAPSLOCK'], ['RIGHTALT']], '@c': [['LEFTCTRL'], ['RIGHTCTRL'], ['TAB']]}
    keys = ['J', 'K', 'L', 'SPACE', 'F5', 'X', 'ENTER', 'N']
    outs = ['DOWN', 'UP', 'LEFT', 'RIGHT', 'BACKSPACE', 'ESC', 'F13', 'PAGEDOWN', 'HOME']
    rowletters = ['ao', 'h?k', 'a B', '!', 'x1', '?', 'Qq', 'n-']
    for t in range(n):
        used = rng.sample(sorted(alias_pool), rng.choice([1, 2, 2, 3]))
        defs, adefs = [], {}
        for a in used:
            ds = alias_pool[a][:rng.choice([1, 2, 2, len(alias_pool[a])])]
            adefs[a] = ds
            for d_ in ds:
                defs.append({'from': d_[0] if rng.random() < .5 else list(d_), 'to': a})
        alias_keys = set(k for ds in adefs.values() for d_ in ds for k in d_)
        plain = [m for m in ['LEFTALT', 'LEFTMETA', 'LEFTCTRL', 'CAPSLOCK'] if m not in alias_keys]

        def pick_mods():
            mods = rng.sample(used, min(len(used), rng.choice([0, 1, 1, 2])))
            if plain and rng.random() < .3:
                mods.insert(rng.randrange(len(mods) + 1), rng.choice(plain))
            return mods

        def rep_single(mods):
            r = rng.random()
            if r < .2:
                return rng.choice(['Disabled', 'disabled', 'Normal', 'normal'])
            if r < .5:
                al = [a for a in mods if a.startswith('@') and rng.random() < .5]
                k_ = [rng.choice(['F21', 'F22', 'C'])] if (al or rng.random() < .85) else []      # an alias is never the last key
                ks = al + k_
                return sp(ks if len(ks) != 1 or rng.random() < .5 else ks[0])
            return None
        items, triggers = [], []
        for _ in range(rng.choice([1, 2, 2, 3])):
            mods = pick_mods()
            k = rng.choice(keys)
            tomods = [m for m in mods if rng.random() < .4]
            to = tomods + [rng.choice(outs)] if rng.random() < .9 else []
            m = {'from': (mods + [k]) if (mods or rng.random() < .5) else k, 'to': to if (len(to) != 1 or rng.random() < .5) else to[0]}
            r = rep_single(mods)
            if r is not None:
                m['repeat'] = r
            ab = [x for x in mods if rng.random() < .5]
            if ab and rng.random() < .4:
                m['absorbing'] = ab if len(ab) > 1 or rng.random() < .5 else ab[0]
            items.append(m)
            triggers.append((mods, k))
        if rng.random() < .6:
            row = rng.choice(['`', '1', 'Q', 'A', 'Z', 'q', 'a'])
            mods = pick_mods()
            letters = rng.choice(rowletters)
            tomods = [m for m in mods if rng.random() < .4]
            to = (tomods + [{'letters': letters}]) if (tomods or rng.random() < .5) else {'letters': letters}
            m = {'from': (mods + [{'row': row}]) if (mods or rng.random() < .5) else {'row': row}, 'to': to}
            r = rng.random()
            if r < .2:
                m['repeat'] = rng.choice(['Disabled', 'disabled'])
            elif r < .4:
                al = [a for a in mods if a.startswith('@') and rng.random() < .5]
                rl = rng.choice(['a', 'A', '?', ' a'])[:len(letters)]
                m['repeat'] = sp(al + [{'letters': rl}] if al or rng.random() < .5 else {'letters': rl})
            ab = [x for x in mods if rng.random() < .5]
            if ab and rng.random() < .4:
                m['absorbing'] = ab
            items.append(m)
            rk = US_ROWS[row.upper()]
            triggers.append((mods, rk[rng.randrange(min(len(letters), len(rk)))]))
        ronly = []
        for _ in range(rng.choice([0, 1, 1, 2])):
            r = rng.random()
            if r < .7 and triggers:
                mods, k = rng.choice(triggers)
                mods = list(mods)
                rng.shuffle(mods)
            else:
                mods = pick_mods()
                k = rng.choice(['F7', 'F8', 'M'])
            rr = rng.random()
            if rr < .3:
                rep = rng.choice(['Normal', 'normal'])
            elif rr < .6:
                rep = rng.choice(['Disabled', 'disabled'])
            else:
                al = [a for a in mods if a.startswith('@') and rng.random() < .5]
                rep = sp(al + [rng.choice(['F23', 'F24'])])
            ronly.append({'from': (mods + [k]) if (mods or rng.random() < .5) else k, 'repeat': rep})
        body = items + ronly
        if rng.random() < .5:
            allm = defs + body
            rng.shuffle(allm)
        else:
            rng.shuffle(body)
            allm = defs + body
        out.append(('random program %d' % t, {'mappings': allm}))
    return out


def c13_spellings():
    """pairs of programs that must convert identically"""
    sp = lambda keys: {'Special': {'keys': keys, 'delay_ms': 180, 'interval_ms': 30}}
    return [
        ({'mappings': [{'from': 'A', 'to': 'B'}]}, {'mappings': [{'from': ['A'], 'to': ['B']}]}),
        ({'mappings': [{'from': {'row': 'a'}, 'to': {'letters': 'xy'}}]}, {'mappings': [{'from': [{'row': 'A'}], 'to': [{'letters': 'xy'}]}]}),
        ({'mappings': [{'from': {'row': 'q'}, 'to': {'letters': 'x Y'}, 'repeat': 'disabled'}]}, {'mappings': [{'from': {'row': 'Q'}, 'to': {'letters': 'x Y'}, 'repeat': 'Disabled'}]}),
        ({'mappings': [{'from': 'A', 'to': 'B', 'repeat': 'NORMAL'}]}, {'mappings': [{'from': 'A', 'to': 'B'}]}),
        ({'mappings': [{'from': ['LEFTSHIFT', 'A'], 'to': 'B', 'absorbing': 'LEFTSHIFT'}]}, {'mappings': [{'from': ['LEFTSHIFT', 'A'], 'to': 'B', 'absorbing': ['LEFTSHIFT']}]}),
        ({'mappings': [{'from': 'A', 'to': 'B', 'repeat': sp('F21')}]}, {'mappings': [{'from': 'A', 'to': 'B', 'repeat': sp(['F21'])}]}),
        ({'mappings': [{'from': 'A', 'to': 'A', 'repeat': 'Disabled'}]}, {'mappings': [{'from': 'A', 'repeat': 'disabled'}]}),
    ]


def subst_program(prog, ch):
    """replace the symbolic-letter placeholder by ch (a python char or a z3 term -> SStr)"""
    def rec(x):
        if isinstance(x, dict):
            return {k: rec(v) for k, v in x.items()}
        if isinstance(x, list):
            return [rec(v) for v in x]
        if isinstance(x, str) and SYMCH in x:
            if isinstance(ch, str):
                return x.replace(SYMCH, ch)
            return SStr([ch if c == SYMCH else ord(c) for c in x])
        return x
    return rec(prog)


def value_of(x):
    """python program (possibly containing SStr) -> Value"""
    if isinstance(x, SStr):
        return Adt('Value', 'String', [x])
    if isinstance(x, dict):
        from .serdemodel import jobj
        return jobj([(k, value_of(v)) for k, v in sorted(x.items())])
    if isinstance(x, list):
        from .serdemodel import jarr
        return jarr([value_of(v) for v in x])
    return from_python(x)


def has_sym(prog):
    return SYMCH in json.dumps(prog, ensure_ascii=False)


def check_c13(tier, seed):
    t0 = time.time()
    prog = load_program()
    native = Native()
    setup(prog, native)
    oc = Outcome('C13')
    rng = random.Random(seed)
    stats = {'paths': 0, 'programs': 0, 'mir_steps': 0, 'z3_checks': 0, 'symbolic_letters': 0}
    viols = []
    samples = []
    global _C13_PROGRAMS
    _C13_PROGRAMS = c13_programs(tier, rng)
    import multiprocessing as mp
    pool = mp.Pool(int(os.environ.get('VERIF_JOBS', '16')))
    try:
        for name, symbolic, npaths, steps, z3c, vs, smp in pool.imap_unordered(_c13_worker, range(len(_C13_PROGRAMS))):
            stats['programs'] += 1
            stats['symbolic_letters'] += 1 if symbolic else 0
            stats['paths'] += npaths
            stats['mir_steps'] += steps
            stats['z3_checks'] += z3c
            viols.extend(vs)
            if len(samples) < 3:
                samples.extend(smp[:1])
    finally:
        pool.terminate()
    # spelling equivalences
    for a, b in c13_spellings():
        stats['programs'] += 2
        outs = []
        for p in (a, b):
            it = Interp(prog, keys=KeyTheory(mapper.DOMAIN))
            try:
                st, res = load_value(it, value_of(p))
                outs.append((st, layout_to_py(it, res) if st == 'ok' else None))
            except Panic as e:
                outs.append(('panic', str(e)))
            stats['paths'] += 1
        if outs[0] != outs[1] or outs[0][0] != 'ok':
            viols.append(('spellings', 'equivalent spellings convert differently: %s vs %s' % (_short(outs[0][1]) if outs[0][1] and outs[0][0] == 'ok' else outs[0], _short(outs[1][1]) if outs[1][1] and outs[1][0] == 'ok' else outs[1]), a))
            viols.append(('spellings', 'equivalent spellings convert differently (second spelling)', b))
    log('[C13] %d programs, %d paths, %d symbolic violations, %.1fs' % (stats['programs'], stats['paths'], len(viols), time.time() - t0))
    # native confirmation
    seen = {}
    spell_natives = {}
    for name, what, cprog in viols:
        role = what.split(',')[0][:60]
        if seen.get(name, 0) >= 2:
            continue
        seen[name] = seen.get(name, 0) + 1
        if cprog is None:
            oc.inconclusive.append('symbolic violation without a concrete program: %s: %s' % (name, what))
            continue
        r = native.ask({'kind': 'load_value', 'value': cprog})
        case = {'kind': 'load_value', 'value': cprog, 'property': 'C13', 'what': what}
        if 'panic' in r:
            oc.violations.append(('panic', '[%s] converting %s panics natively: %s' % (name, json.dumps(cprog), r['panic']), case))
            continue
        if 'ok' not in r:
            oc.inconclusive.append('native load failed: %r' % (r,))
            continue
        if name == 'spellings':
            spell_natives[json.dumps(cprog, sort_keys=True)] = r['ok']
            continue
        try:
            ref = names_to_codes(ref_expand(cprog))
        except RefReject as e:
            ref = None
        if 'rejected' in r['ok']:
            if ref is not None:
                oc.violations.append(('rejects valid', '[%s] %s is rejected natively (%s) but has a hand-written expansion' % (name, json.dumps(cprog), r['ok']['rejected']), case))
            else:
                oc.inconclusive.append('ENGINE-MISMATCH: %s' % what)
            continue
        real = r['ok']['layout']
        diff = compare_blocks(real, ref) if ref is not None else 'accepted although the reference rejects it'
        if diff is not None:
            oc.violations.append((role, '[%s] program %s: %s' % (name, json.dumps(cprog), diff), case))
        else:
            oc.inconclusive.append('ENGINE-MISMATCH (symbolic violation not reproduced natively): [%s] %s' % (name, what))
    for a, b in c13_spellings():
        ka, kb = json.dumps(a, sort_keys=True), json.dumps(b, sort_keys=True)
        if ka in spell_natives and kb in spell_natives and spell_natives[ka] != spell_natives[kb]:
            oc.violations.append(('spellings', 'equivalent spellings %s and %s convert differently natively' % (ka, kb), {'kind': 'load_value', 'value': a, 'other': b, 'property': 'C13'}))
    # differential validation: the concrete programs through MIR vs natively
    validated = 0
    for name, program in c13_programs(tier, random.Random(seed)):
        if has_sym(program):
            program = subst_program(program, 'w')
        it = Interp(prog, keys=KeyTheory(mapper.DOMAIN))
        try:
            st, res = load_value(it, value_of(program))
            mine = layout_to_py(it, res) if st == 'ok' else None
        except Panic:
            st, mine = 'panic', None
        r = native.ask({'kind': 'load_value', 'value': program})
        validated += 1
        nat = r.get('ok', {}).get('layout') if 'ok' in r else None
        if (st == 'ok') != (nat is not None) or (nat is not None and nat != mine):
            oc.inconclusive.append('model/native disagreement on program %s: %r vs %r' % (name, mine, r))
            break
        if validated >= (25 if tier == 'quick' else 200):
            break
    native.close()
    cov = {
        'explanation': 'parse_layout_from_json + convert (crate MIR, incl. the lazily initialised CHAR_ACCESS_MAP / US_KEYBOARD_LAYOUT / ROW_NAMES tables) on layout programs; '
                       'in row programs one letter position at a time is a symbolic character over printable ASCII + space, decided by the solver at the table lookup (95 classes); '
                       'the result is compared with a hand-written expansion built from an independent US-QWERTY table (blocks per source mapping in source order, order inside a block free)',
        'evaluations': stats['paths'], 'distinct_nontrivial': stats['paths'],
        'rule': 'one evaluation = one symbolic path (program x class of the symbolic letter); programs are distinct by construction',
        'samples': samples or [{'program': 'row A, symbolic letter at position 0'}],
        'programs': stats['programs'], 'programs_with_a_symbolic_letter': stats['symbolic_letters'], 'paths': stats['paths'],
        'mir_statements_executed': stats['mir_steps'], 'solver': {'z3 checks (branch feasibility at the character table)': stats['z3_checks']},
        'traces_validated_against_impl': validated,
        'functions_encoded': ['parse_layout_from_json and parse_* callees', 'convert, convert_mapping, convert_alias, convert_single, convert_row, convert_row_to, adjust_repeats, FromSet::new, build_combinations, iterate_combinations, MultiplyIter, AliasCombination::*', 'KeyCode::from_str', 'lazy statics CHAR_ACCESS_MAP, US_KEYBOARD_LAYOUT, ROW_NAMES'],
        'bounds': 'rows up to their full length (Q row: 12 keys as in the tool), <= 3 alias/plain modifiers, <= 3 definitions per alias, <= 3 aliases per trigger; quick tier: every position of every row x 2 of the 4 modifier/repeat variants, thorough: x 4 variants; '
                  'the emission rule for alias definitions themselves (nothing for a lone standard modifier, otherwise trigger -> extra output keys) is taken from the code, the property text does not define it',
    }
    rc = oc.report()
    write_evidence('C13', tier, seed, cov, ['the hand-written expansion and its US-QWERTY table are the oracle', 'JSON text -> Value is serde_json (dependency)'], time.time() - t0, len(oc.violations))
    return rc


# =========================================================================== C14: reject or run, never panic
KEYSTR = ['A', 'B', 'LEFTSHIFT', 'RIGHTSHIFT', '1', 'NOTAKEY', '', 'a']
MODSTR = ['LEFTSHIFT', 'CAPSLOCK', '@shift', '@undefined', 'A', 'NOTAKEY']
ROWSTR = ['A', 'q', '`', '1', 'X', '']
LETTERS = ['ab', 'a B?', '', ' ', 'abcdefghijklmno', 'é', '?A', 'a\u0000b']
JUNK = [None, 5, True, {}, {'row': 5}, {'row': 'A', 'extra': 1}, [[]], {'letters': 5}, {'x': 'y'}, 2.5]


class G:
    """structure-aware grammar of layout files; every choice is a fork of the exploration"""

    def __init__(self, it):
        self.it = it
        self.nnum = 0

    def pick(self, xs):
        return xs[self.it.choose(len(xs))]

    def num(self):
        k = self.pick(['sym', 'float', 'big'] if self.nnum % 2 == 0 else ['sym', 'neg'])
        if k == 'sym':
            self.nnum += 1
            return z3.BitVec('num%d' % self.nnum, 64)
        return {'float': 2.5, 'big': (1 << 64) - 1, 'neg': -(1 << 63)}[k]

    def from_(self, stage):
        k = self.pick(['key', 'arr0', 'arr', 'arr-dup', 'row', 'arr-row', 'arr-plain-alias', 'junk'] if stage != 'alias' else ['key', 'arr', 'arr-dup', 'arr-alias'])
        if k == 'key':
            return self.pick(KEYSTR)
        if k == 'arr0':
            return []
        if k == 'arr':
            return [self.pick(MODSTR), self.pick(KEYSTR[:5])]
        if k == 'arr-dup':
            x = self.pick(['A', 'LEFTSHIFT', '@shift'])
            return [x, x] if self.it.choose(2) == 0 else [x, 'B', x]
        if k == 'arr-alias':
            return ['@shift', 'A']
        if k == 'arr-plain-alias':
            # a plain modifier before an alias (the alias may be used again on the output side)
            return ['LEFTCTRL', '@shift', self.pick(['A', {'row': 'A'}])]
        if k == 'row':
            return {'row': self.pick(ROWSTR)}
        if k == 'arr-row':
            return [self.pick(MODSTR), {'row': self.pick(ROWSTR[:4])}]
        return self.pick(JUNK)

    def to(self, stage):
        k = self.pick(['key', 'alias', 'arr0', 'arr', 'arr-dup', 'arr-alias-end', 'letters', 'arr-letters', 'junk'])
        if k == 'key':
            return self.pick(KEYSTR)
        if k == 'alias':
            return self.pick(['@shift', '@x', '@'])
        if k == 'arr0':
            return []
        if k == 'arr':
            return [self.pick(MODSTR), self.pick(KEYSTR[:5])]
        if k == 'arr-dup':
            x = self.pick(['A', 'LEFTSHIFT', '@shift'])
            return [x, x]
        if k == 'arr-alias-end':
            return [self.pick(['LEFTCTRL', '@shift', 'NOTAKEY', 5]), '@x']
        if k == 'letters':
            return {'letters': self.pick(LETTERS)}
        if k == 'arr-letters':
            return [self.pick(MODSTR[:4]), {'letters': self.pick(LETTERS[:5])}]
        return self.pick(JUNK)

    def repeat(self):
        k = self.pick(['Normal', 'disabled', 'junkstr', 'special', 'special-row', 'special-missing', 'special-junk', 'special-extra', 'junk'])
        if k in ('Normal', 'disabled'):
            return k
        if k == 'junkstr':
            return 'sometimes'
        if k == 'special':
            return {'Special': {'keys': self.pick(['F21', ['LEFTCTRL', 'C'], [], ['C', 'C'], '@shift', ['@shift', 'C'], 5, {'letters': 'a'}]),
                                'delay_ms': self.num(), 'interval_ms': self.num()}}
        if k == 'special-row':
            return {'Special': {'keys': self.pick([{'letters': 'a'}, {'letters': 'abc'}, ['@shift', {'letters': 'A b'}], 'F21', []]), 'delay_ms': 180, 'interval_ms': 30}}
        if k == 'special-missing':
            d = {'keys': 'F21', 'delay_ms': 180, 'interval_ms': 30}
            d.pop(self.pick(['keys', 'delay_ms', 'interval_ms']))
            return {'Special': d}
        if k == 'special-junk':
            return {'Special': self.pick([5, [], 'x', None])}
        if k == 'special-extra':
            return {'Special': {'keys': 'F21', 'delay_ms': 180, 'interval_ms': 30}, 'Other': 1}
        return self.pick(JUNK[:6])

    def absorbing(self):
        k = self.pick(['mod', 'arr', 'arr2', 'junk'])
        if k == 'mod':
            return self.pick(MODSTR)
        if k == 'arr':
            return [self.pick(MODSTR)]
        if k == 'arr2':
            return ['LEFTSHIFT', self.pick(['LEFTSHIFT', '@shift', 5])]
        return self.pick(JUNK[:5])

    def program(self, stage):
        alias_defs = [{'from': 'LEFTSHIFT', 'to': '@shift'}, {'from': 'RIGHTSHIFT', 'to': '@shift'}]
        if stage == 'root':
            return self.pick([{}, {'mappings': 5}, {'mappings': []}, {'mappings': [5]}, {'mappings': [[]]}, {'mappings': [{}]}, [], 'x', None, 7, True,
                              {'mappings': [], 'extra': 1}, {'Mappings': []}, {'mappings': [{'from': 'A'}]}, {'mappings': [{'to': 'A'}]},
                              {'mappings': [{'from': 'A', 'to': 'B', 'extra': 1}]}, {'mappings': [{'from': 'A', 'repeat': 'Disabled', 'absorbing': []}]}])
        if stage == 'from-to':
            return {'mappings': alias_defs + [{'from': self.from_(stage), 'to': self.to(stage)}]}
        if stage == 'from-repeat':
            m = {'from': self.pick(['A', ['@shift', 'A'], {'row': 'A'}, ['CAPSLOCK', {'row': 'q'}], [], 5, ['A', 'A'], ['@shift', 'LEFTSHIFT', 'A'],
                                    ['B', 'A', 'B'], ['@undefined', 'A'], ['LEFTCTRL', '@shift', 'A']]), 'repeat': self.repeat()}
            if self.it.choose(2) == 0:
                m['to'] = self.pick(['B', {'letters': 'ab'}, [], '@x'])
            return {'mappings': alias_defs + [m]}
        if stage == 'absorbing':
            return {'mappings': alias_defs + [{'from': self.pick([['LEFTSHIFT', 'A'], ['@shift', 'A'], 'A', ['@shift', {'row': 'A'}], ['CAPSLOCK', 'LEFTSHIFT', 'A'],
                                                                  ['CAPSLOCK', '@shift', 'A'], ['@undefined', 'A']]),
                                              'to': self.pick(['B', {'letters': 'ab'}, '@x']), 'absorbing': self.absorbing()}]}
        if stage == 'alias':
            return {'mappings': [{'from': self.from_('alias'), 'to': self.pick(['@shift', ['LEFTCTRL', '@shift'], ['@shift', '@shift'], ['LEFTCTRL', 'LEFTCTRL', '@shift']])},
                                 {'from': self.pick([['@shift', 'X'], ['@shift', '@shift', 'X'], ['@other', 'X'], 'X']), 'to': self.pick(['Y', ['@shift', 'Y'], ['@other', 'Y']])}] +
                    ([{'from': ['@shift', 'X'], 'repeat': self.pick(['Disabled', {'Special': {'keys': ['@shift', 'F21'], 'delay_ms': 1, 'interval_ms': 1}}])}] if self.it.choose(2) == 0 else [])}
        if stage == 'rows':
            return {'mappings': alias_defs + [{'from': [self.pick(['@shift', 'RIGHTSHIFT', 'CAPSLOCK']), {'row': self.pick(ROWSTR[:4])}],
                                              'to': [self.pick(['@shift', 'LEFTSHIFT', 'RIGHTSHIFT', 'LEFTCTRL']), {'letters': self.pick(['a?', 'A', '~!', 'ab cd', '"'])}],
                                              'repeat': self.pick(['Normal', {'Special': {'keys': {'letters': self.pick(['?', 'a', ' b'])}, 'delay_ms': 0, 'interval_ms': 0}}])}]}
        raise ValueError(stage)


C14_STAGES = ['root', 'from-to', 'from-repeat', 'absorbing', 'alias', 'rows']


def check_c14(tier, seed):
    t0 = time.time()
    prog = load_program()
    native = Native()
    setup(prog, native)
    oc = Outcome('C14')
    rng = random.Random(seed)
    stats = {'paths': 0, 'accepted': 0, 'rejected': 0, 'panics': 0, 'mir_steps': 0}
    viols = []
    accepted = {}
    samples = []
    from . import parexplore
    for stage in C14_STAGES:
        n0 = stats['paths']
        outs, npaths, steps, z3c = parexplore.run('mirsym.convcheck', 'c14_path', (stage,), 'c14_summary', cut_at=2)
        stats['paths'] += npaths
        stats['mir_steps'] += steps
        for kind, st, program, lay in outs:
            if kind == 'ok':
                stats[st] += 1
                if st == 'accepted':
                    key = json.dumps(lay, sort_keys=True, default=str)
                    if key not in accepted:
                        accepted[key] = (program, lay)
                elif len(samples) < 4 and (stats['rejected'] % 97) == 0:
                    samples.append({'stage': stage, 'program': program, 'outcome': 'rejected with a message'})
            elif kind == 'panic':
                stats['panics'] += 1
                viols.append((stage, st, program))
            elif kind == 'unsupported':
                oc.inconclusive.append('unsupported construct on a grammar path: %s' % st)
            else:
                viols.append((stage, st, program))
        log('[C14] stage %-12s %5d paths (%.1fs)' % (stage, stats['paths'] - n0, time.time() - t0))
    # accepted layouts: drive the real mapper with every history (N=2) and watch for panics
    import multiprocessing as mp
    lays = list(accepted.values())
    rng.shuffle(lays)
    cap = 24 if tier == 'quick' else 200
    lays = lays[:cap]
    specs = []
    for i, (program, lay) in enumerate(lays):
        maps = corpus.native_layout(lay)
        specs.append(mapper.Spec('accepted/%d' % i, maps, N=2, depth=6 if tier == 'quick' else 9))
    roots = {}
    root_nodes = {}
    for i, spec in enumerate(specs):
        try:
            rs = mapper.make_root(spec, ())
        except Unsupported as e:
            # for_layout panicked on it: already recorded above as a violation
            continue
        roots[i] = (spec, rs[0][0])
        root_nodes[i] = rs[0][1]
    mstats = {'layouts': 0, 'states': 0, 'paths': 0}
    if roots:
        pool = mp.Pool(int(os.environ.get('VERIF_JOBS', '16')), initializer=mapper._w_init, initargs=(None, roots, {'seed': seed, 'ra': True, 'sample_rate': 0.0}))
        try:
            for i in roots:
                res = mapper.explore_spec(pool, roots[i][0], i, root_nodes[i], deadline=time.time() + 60)
                mstats['layouts'] += 1
                mstats['states'] += res.states
                mstats['paths'] += res.paths
                for v in res.viols:
                    if v[0] == 'PANIC':
                        c = mapper.concretise(roots[i][0], v[3], v[4])
                        viols.append(('mapper', v[1], {'program': lays[i][0], 'ops': c[1] if c else None, 'layout': lays[i][1]}))
        finally:
            pool.terminate()
    log('[C14] %d accepted layouts driven through the mapper: %d states, %d paths' % (mstats['layouts'], mstats['states'], mstats['paths']))
    # panics of the mapper on the layouts of the shared mapper exploration (built-in, README, unit-test layouts, templates;
    # N=3/4): same cache as C01-C09/C19
    from . import mapper_run
    if os.environ.get('VERIF_SEEDTEST_STOP') == 'C14' and viols:
        # tools/seedtest.py only: the grammar stages already found a panic; skip the shared mapper exploration
        md = {'per_prop': {}, 'layouts': [], 'cache_hit': False}
    else:
        md = mapper_run.get_results(tier, seed)
    for v in md['per_prop'].get('PANIC', {}).get('violations', []):
        oc.violations.append(('mapper panic', v['desc'], v['case']))
    for u in md['per_prop'].get('PANIC', {}).get('unconfirmed', []):
        oc.inconclusive.append('ENGINE-MISMATCH (symbolic mapper panic not reproduced natively): ' + u)
    mstats['shared_mapper_exploration'] = {'layouts': len(md['layouts']), 'states': sum(l['states'] for l in md['layouts']), 'cache_hit': md.get('cache_hit', False)}
    # native confirmation
    seen = {}
    for stage, what, program in viols:
        role = 'duplicate key' if 'Duplicate key' in what else what.split(':')[0][:50]
        if seen.get((stage, role), 0) >= 2:
            continue
        seen[(stage, role)] = seen.get((stage, role), 0) + 1
        if stage == 'mapper':
            info = program
            r = native.ask({'kind': 'mapper', 'layout': info['layout'], 'ops': info['ops']})
            case = {'kind': 'mapper', 'layout': info['layout'], 'ops': info['ops'], 'program': info['program'], 'property': 'C14'}
            if 'panic' in r:
                oc.violations.append((role, 'accepted layout %s panics in the mapper on %r: %s' % (json.dumps(info['program']), info['ops'], r['panic']), case))
            else:
                oc.inconclusive.append('ENGINE-MISMATCH: mapper panic not reproduced natively: %s' % what)
            continue
        if program is None:
            oc.inconclusive.append('symbolic panic without a program: ' + what)
            continue
        r = native.ask({'kind': 'load_and_install', 'value': program})
        case = {'kind': 'load_and_install', 'value': program, 'property': 'C14', 'what': what}
        if 'panic' in r:
            oc.violations.append((role, 'layout file %s: %s' % (json.dumps(program), r['panic']), case))
        else:
            oc.inconclusive.append('ENGINE-MISMATCH (symbolic panic not reproduced natively): %s on %s -> %r' % (what, json.dumps(program), str(r)[:200]))
    # differential validation: a sample of programs through MIR vs natively (accept / reject must agree)
    validated = 0
    for key, (program, lay) in list(accepted.items())[:20]:
        r = native.ask({'kind': 'load_value', 'value': program})
        validated += 1
        if 'ok' not in r or r['ok'].get('layout') != lay:
            oc.inconclusive.append('model/native disagreement on accepted program %s: %r vs %r' % (json.dumps(program), lay, str(r)[:300]))
            break
    for s in samples:
        r = native.ask({'kind': 'load_value', 'value': s['program']})
        validated += 1
        if 'ok' not in r or 'rejected' not in r['ok']:
            oc.inconclusive.append('model/native disagreement: %s is rejected symbolically but natively %r' % (json.dumps(s['program']), str(r)[:200]))
            break
    native.close()
    cov = {
        'explanation': 'parse_layout_from_json -> convert -> Mapper::for_layout executed from MIR on serde_json::Value trees enumerated from a structure-aware grammar (wrong types, missing/extra fields, empty arrays, repeated keys, '
                       'undefined/misplaced aliases, over-long rows, unknown characters) with symbolic 64-bit numbers; a path ending in a panic is a violation; every distinct accepted layout (up to a cap) is then driven through the real '
                       'mapper with symbolic key histories (N=2) watching for panics',
        'evaluations': stats['paths'], 'distinct_nontrivial': stats['paths'],
        'rule': 'one evaluation = one path = one grammar derivation (x solver-decided class of the symbolic numbers); derivations are distinct by construction',
        'samples': samples + [{'accepted_program': p, 'basic_layout': l} for p, l in list(accepted.values())[:2]],
        'paths': stats['paths'], 'accepted': stats['accepted'], 'rejected': stats['rejected'], 'panicking_paths': stats['panics'],
        'distinct_accepted_layouts': len(accepted), 'accepted_layouts_driven_through_mapper': mstats, 'mir_statements_executed': stats['mir_steps'],
        'traces_validated_against_impl': validated,
        'functions_encoded': ['parse_layout_from_json and callees', 'convert and callees', 'Mapper::for_layout, make_hashed_layout', 'Mapper::step / release_all and callees'],
        'bounds': 'stages %r; <= 3 source mappings per file; strings from fixed pools; numbers symbolic i64 / float / u64::MAX / i64::MIN; mapper histories with <= 2 keys held, depth <= 6 (quick) / 9; '
                  'outside: bytes -> Value (serde_json\'s parser is dependency code), file I/O errors, main.rs argument handling' % (C14_STAGES,),
    }
    rc = oc.report()
    write_evidence('C14', tier, seed, cov, ['the claim starts at serde_json::Value (arbitrary bytes are parsed by serde_json, a dependency)'], time.time() - t0, len(oc.violations))
    return rc


def _concretise_nums(it, lay):
    zm = it.model() if it.solver is not None else None

    def num(x):
        if isinstance(x, (int, float)) or x is None or isinstance(x, str):
            return x
        if zm is not None:
            v = zm.eval(x, model_completion=True).as_long()
            bits = x.size()
            return v - (1 << bits) if v >= (1 << (bits - 1)) else v
        return 0
    out = []
    for m in lay:
        r = m['repeat']
        if isinstance(r, dict):
            r = {'keys': r['keys'], 'delay_ms': num(r['delay_ms']), 'interval_ms': num(r['interval_ms'])}
        out.append(dict(m, repeat=r))
    return out


def _concretise_prog(it, program):
    if program is None:
        return None
    zm = it.model() if it.solver is not None else None

    def rec(x):
        if isinstance(x, dict):
            return {k: rec(v) for k, v in x.items()}
        if isinstance(x, list):
            return [rec(v) for v in x]
        if z3.is_expr(x):
            if zm is None:
                return 0
            v = zm.eval(x, model_completion=True).as_long()
            return v - (1 << 64) if v >= (1 << 63) else v
        return x
    return rec(program)


def c14_path(it, stage):
    g = G(it)
    program = g.program(stage)
    it._program = program
    value = value_of(program)
    st, res = load_value(it, value)
    if st != 'ok':
        return ('rejected', program, None)
    lay = layout_to_py(it, res)
    it.run(mapper.F_FOR_LAYOUT, [Ref(Cell(res))])      # install in the mapper: the real Mapper::for_layout
    return ('accepted', program, lay)


def c14_summary(it, res):
    kind, payload = res
    program = _concretise_prog(it, getattr(it, '_program', None))
    if kind == 'ok':
        st, _, lay = payload
        return ('ok', st, program, _concretise_nums(it, lay) if lay is not None else None)
    if kind == 'viol':
        return ('viol', payload[0], program, None)
    return (kind, payload, program, None)


# C15 over what the converter really produces: the C14 grammar's accepted derivations are saved and reloaded
C15_GRAMMAR_STAGES = ['from-to', 'from-repeat', 'absorbing', 'alias', 'rows']


def c15_grammar_path(it, stage):
    g = G(it)
    program = g.program(stage)
    it._program = program
    st, res = load_value(it, value_of(program))
    if st != 'ok':
        return ('rejected', 0)
    f_ser = mapper.PROG.method('Layout', 'serialize', module='keys', trait='Serialize')
    orig = layout_to_py(it, res)
    r = it.run(f_ser, [Ref(Cell(res)), Adt('ValueSerializer', None, [])])
    if r.variant != 'Ok':
        raise Violation('C15', 'serialising the converted layout failed', {'layout': orig})
    st2, res2 = load_value(it, r.f[0])
    if st2 != 'ok':
        raise Violation('C15', 'the saved layout is rejected on reload: %s' % (res2 if isinstance(res2, str) else '<message>'), {'layout': orig})
    stats = {'queries': 0}
    diff = same_layout(it, orig, layout_to_py(it, res2), stats)
    if diff is not None:
        raise Violation('C15', 'the reloaded layout differs: ' + diff, {'layout': orig})
    return ('accepted', stats['queries'])


def c15_grammar_summary(it, res):
    kind, payload = res
    if kind == 'ok':
        return ('ok', payload[0], payload[1], None, None)
    program = _concretise_prog(it, getattr(it, '_program', None))
    if kind == 'viol':
        lay = payload[1].get('layout') if isinstance(payload[1], dict) else None
        return ('viol', payload[0], 0, program, _concretise_layout(it, lay) if lay is not None else None)
    if kind == 'panic':
        # panics of the converter on grammar paths belong to C14; they end the path here
        return ('panic', payload, 0, program, None)
    return (kind, payload, 0, program, None)


_C13_PROGRAMS = []


def _c13_worker(i):
    name, program = _C13_PROGRAMS[i]
    symbolic = has_sym(program)
    viols = []
    samples = []
    npaths = steps = z3c = 0

    def run(it):
        ch = None
        if symbolic:
            ch = z3.BitVec('letter', 32)
            it.assume(z3.And(z3.UGE(ch, 0x20), z3.ULE(ch, 0x7e)))
        value = value_of(subst_program(program, ch) if symbolic else program)
        try:
            st, res = load_value(it, value)
        except Panic as e:
            cp = program
            if symbolic:
                m = it.model()
                cp = subst_program(program, chr(m.eval(ch, model_completion=True).as_long()))
            raise Violation('C13', 'panic while converting: %s' % e, {'program': cp})
        if symbolic:
            m = it.model()
            cval = m.eval(ch, model_completion=True).as_long()
            if it.check_sat(ch != cval):
                it.decide(ch == cval)      # the path does not pin the letter: split on the model value
            cprog = subst_program(program, chr(cval))
        else:
            cprog = program
        try:
            ref = names_to_codes(ref_expand(cprog))
        except RefReject as e:
            if st == 'ok':
                raise Violation('C13', 'the converter accepts a program the hand-written expansion rejects (%s)' % e, {'program': cprog})
            return None
        if st != 'ok':
            raise Violation('C13', 'the converter rejects a valid program: %s' % (res if isinstance(res, str) else '<message>'), {'program': cprog})
        real = layout_to_py(it, res)
        diff = compare_blocks(real, ref)
        if diff is not None:
            raise Violation('C13', diff, {'program': cprog})
        return cprog
    for it, (kind, res) in explore(run):
        npaths += 1
        steps += it.steps
        z3c += it.stats['z3_checks']
        if kind == 'ok':
            if res is not None and len(samples) < 1 and not symbolic:
                samples.append({'program': res})
        elif kind == 'viol':
            viols.append((name, res.what, res.ctx.get('program')))
        else:
            viols.append((name, 'panic while converting: ' + res, None))
    return name, symbolic, npaths, steps, z3c, viols, samples


_C15_SHAPES = []
_C15_FSER = None


def _c15_worker(task):
    i, lo, hi = task
    nm, maps = _C15_SHAPES[i]
    stats = {'queries': 0}
    viols = []
    samples = []
    npaths = steps = 0

    def run(it):
        # the converter never produces a mapping that lists a key twice in its from / to list
        for m in maps:
            for fld in ('frm', 'to'):
                for k in m[fld]:
                    if isinstance(k, str):
                        for o in m[fld]:
                            if not isinstance(o, str):
                                it.keys.assert_lit(k, o, False)
        if lo is not None:
            # this work unit covers the codes lo..hi of the symbolic key: exclude the others
            for c in mapper.DOMAIN:
                if c < lo or c > hi:
                    if it.keys.ask('s', c) is None:
                        it.keys.assert_lit('s', c, False)
        lay = basic_layout_val(maps)
        r = it.run(_C15_FSER, [Ref(Cell(lay)), Adt('ValueSerializer', None, [])])
        if r.variant != 'Ok':
            raise Violation('C15', 'serialising the layout failed', {})
        value = r.f[0]
        st, res = load_value(it, value)
        orig = layout_to_py(it, lay)
        if st != 'ok':
            raise Violation('C15', 'the saved layout is rejected on reload: %s' % (res if isinstance(res, str) else '<message>'),
                            {'saved': to_python(value), 'layout': orig})
        back = layout_to_py(it, res)
        diff = same_layout(it, orig, back, stats)
        if diff is not None:
            raise Violation('C15', 'the reloaded layout differs: ' + diff, {'saved': to_python(value), 'layout': orig})
        return to_python(value)
    for it, (kind, res) in explore(run):
        npaths += 1
        steps += it.steps
        if kind == 'ok':
            if len(samples) < 1 and nm.startswith('concrete'):
                samples.append({'shape': nm, 'saved_json': res})
        elif kind == 'viol':
            lay = res.ctx.get('layout') if isinstance(res.ctx, dict) else None
            viols.append((res.what, _concretise_layout(it, lay) if lay is not None else None))
        else:
            viols.append(('panic during save/reload: ' + res, None))
    return i, npaths, steps, stats['queries'], viols, samples
