"""C13, C14, C15: the loader pipeline parse_layout_from_json -> convert (-> Mapper::for_layout/step)
executed from MIR on serde_json::Value trees with symbolic leaves."""
import itertools
import json
import os
import random
import time

import z3

from . import mapper, corpus
from .checklib import log, Outcome, write_evidence
from .frontend import load_program, Native, REPO
from .interp import Interp
from .keytheory import KeyTheory
from .serdemodel import from_python, to_python, serialize_value
from .symstr import SStr
from .values import (Cell, Ref, Adt, VecV, MapV, EnumC, Sym, Opaque, Panic, Unsupported, PathInfeasible, Violation, UNIT)

F_PARSE = F_CONVERT = None
NAMES = None        # key code -> serde name
INVN = None


def setup(prog, native):
    global F_PARSE, F_CONVERT, NAMES, INVN
    mapper.init(prog)
    F_PARSE = prog.find_fn('parse_layout_from_json')
    F_CONVERT = prog.find_fn('convert')
    r = native.ask({'kind': 'key_names'})
    NAMES = {n: ser for n, disp, ser in r['ok']}
    INVN = {v: k for k, v in NAMES.items()}


def explore(fn, max_paths=200000):
    """run fn(it) for every path (decision replay). fn returns a result or raises Violation/Panic.
    yields (it, outcome) where outcome = ('ok', result) | ('viol', Violation) | ('panic', msg)"""
    work = [[]]
    n = 0
    while work:
        d = work.pop()
        it = Interp(mapper.PROG, d, keys=KeyTheory(mapper.DOMAIN))
        try:
            res = ('ok', fn(it))
        except Violation as v:
            res = ('viol', v)
        except Panic as e:
            res = ('panic', str(e))
        except PathInfeasible:
            work.extend(it.new_branches)
            continue
        work.extend(it.new_branches)
        n += 1
        yield it, res
        if n >= max_paths:
            raise Unsupported('path budget exceeded')


# --------------------------------------------------------------------------- basic layouts as values
def kv(k):
    if isinstance(k, str):
        return EnumC('KeyCode', Sym(k))
    return EnumC('KeyCode', k)


def basic_layout_val(maps):
    out = []
    for m in maps:
        rep = m['rep']
        if rep[0] == 'Special':
            r = Adt('Repeat', 'Special', [VecV([kv(x) for x in rep[1]]), rep[2], rep[3]])
        else:
            r = Adt('Repeat', rep[0], [])
        out.append(Adt('Mapping', None, [VecV([kv(x) for x in m['frm']]), VecV([kv(x) for x in m['to']]), r, VecV([kv(x) for x in m.get('absb', [])])]))
    return Adt('Layout', None, [VecV(out)])


def layout_to_py(it, lay, model=None):
    """Layout value -> python structure (for reports / native replay); key symbols resolved through the theory"""
    def key(e):
        d = e.d
        if isinstance(d, Sym):
            d = it.keys.canon(d.name)
            if isinstance(d, str) and model is not None:
                d = model.get(d, d)
        return d
    out = []
    for m in lay.f[0].items:
        rep = m.f[2]
        if rep.variant == 'Special':
            def num(x):
                if isinstance(x, Opaque):
                    x = x.term
                return x
            r = {'keys': [key(x) for x in rep.f[0].items], 'delay_ms': num(rep.f[1]), 'interval_ms': num(rep.f[2])}
        else:
            r = rep.variant
        out.append({'from': [key(x) for x in m.f[0].items], 'to': [key(x) for x in m.f[1].items], 'repeat': r,
                    'absorbing': [key(x) for x in m.f[3].items]})
    return out


def same_layout(it, a, b, stats):
    """validity of a == b under the path condition (symbolic numbers decided by z3)"""
    if len(a) != len(b):
        return 'number of mappings differs (%d vs %d)' % (len(a), len(b))
    for i, (x, y) in enumerate(zip(a, b)):
        for fld in ('from', 'to', 'absorbing'):
            if x[fld] != y[fld]:
                return 'mapping %d: `%s` differs: %r vs %r' % (i, fld, x[fld], y[fld])
        rx, ry = x['repeat'], y['repeat']
        if isinstance(rx, dict) != isinstance(ry, dict):
            return 'mapping %d: repeat differs: %r vs %r' % (i, rx, ry)
        if isinstance(rx, dict):
            if rx['keys'] != ry['keys']:
                return 'mapping %d: repeat keys differ: %r vs %r' % (i, rx['keys'], ry['keys'])
            for fld in ('delay_ms', 'interval_ms'):
                p, q = rx[fld], ry[fld]
                if isinstance(p, int) and isinstance(q, int):
                    if p != q:
                        return 'mapping %d: %s differs: %r vs %r' % (i, fld, p, q)
                else:
                    stats['queries'] += 1
                    pt = p if z3.is_expr(p) else z3.BitVecVal(p, 32)
                    qt = q if z3.is_expr(q) else z3.BitVecVal(q, 32)
                    if it.check_sat(pt != qt):
                        return 'mapping %d: %s differs for some values: %s vs %s' % (i, fld, p, q)
        elif rx != ry:
            return 'mapping %d: repeat differs: %r vs %r' % (i, rx, ry)
    return None


def load_value(it, value):
    """parse_layout_from_json + convert on a Value. returns ('ok', Layout) | ('rejected', msg)"""
    r = it.run(F_PARSE, [Ref(Cell(value))])
    if r.variant == 'Err':
        return 'rejected', r.f[0]
    r2 = it.run(F_CONVERT, [Ref(Cell(r.f[0]))])
    if r2.variant == 'Err':
        return 'rejected', r2.f[0]
    return 'ok', r2.f[0]


# =========================================================================== C15
def c15_shapes(tier, rng):
    """basic layouts the converter can produce: structure concrete, one key position symbolic at a time"""
    KC = mapper.KC
    A, B, C, D, E = KC['A'], KC['B'], KC['C'], KC['D'], KC['E']
    LS, RS, LC, CAPS = KC['LEFTSHIFT'], KC['RIGHTSHIFT'], KC['LEFTCTRL'], KC['CAPSLOCK']
    d0, i0 = Opaque('delay0'), Opaque('interval0')
    N = ('Normal', None, None, None)
    DIS = ('Disabled', None, None, None)
    shapes = []
    base = [
        [dict(frm=[A], to=[B], rep=N)],
        [dict(frm=[CAPS], to=[], rep=N), dict(frm=[CAPS, A], to=[LS, B], rep=DIS)],
        [dict(frm=[LS, A], to=[LS, B], rep=N, absb=[LS])],
        [dict(frm=[LS, LC, A], to=[C], rep=('Special', [D], d0, i0), absb=[LS, LC])],
        [dict(frm=[A], to=[A], rep=('Special', [], d0, i0))],
        [dict(frm=[CAPS, RS, A], to=[B, C, D], rep=('Special', [LC, E], d0, i0), absb=[RS])],
        [dict(frm=[A], to=[B], rep=N), dict(frm=[A], to=[C], rep=DIS)],
    ]
    for maps in base:
        shapes.append(('concrete-keys', maps))
    # one symbolic key per position
    positions = [
        ('from-final', [dict(frm=[LS, 's'], to=[B], rep=N)]),
        ('from-modifier', [dict(frm=['s', A], to=[B], rep=N)]),
        ('to', [dict(frm=[A], to=[LS, 's'], rep=N)]),
        ('absorbing', [dict(frm=['s', A], to=[B], rep=N, absb=['s'])]),
        ('repeat-keys', [dict(frm=[A], to=[A], rep=('Special', [LC, 's'], d0, i0))]),
    ]
    for nm, maps in positions:
        shapes.append(('symbolic-key/' + nm, maps))
    if tier != 'quick':
        for _ in range(30):
            maps = []
            for _m in range(rng.choice([1, 2, 3])):
                pre = rng.sample([LS, RS, LC, CAPS, KC['TAB']], rng.choice([0, 1, 2]))
                fin = rng.choice([A, B, C, KC['K1'], KC['K102ND'], KC['SEMICOLON']])
                to = rng.sample([LS, LC, D, E, KC['F21'], KC['K0']], rng.choice([0, 1, 2, 3]))
                rk = rng.choice([N, DIS, ('Special', rng.sample([LC, E, KC['F24']], rng.choice([0, 1, 2])), Opaque('delay%d' % _m), Opaque('interval%d' % _m))])
                maps.append(dict(frm=pre + [fin], to=to, rep=rk, absb=[k for k in pre if rng.random() < 0.5]))
            shapes.append(('random', maps))
    return shapes


def check_c15(tier, seed):
    t0 = time.time()
    prog = load_program()
    native = Native()
    setup(prog, native)
    oc = Outcome('C15')
    rng = random.Random(seed)
    stats = {'paths': 0, 'queries': 0, 'mir_steps': 0, 'shapes': 0}
    f_ser = prog.method('Layout', 'serialize', module='keys', trait='Serialize')
    viols = []
    samples = []
    for nm, maps in c15_shapes(tier, rng):
        stats['shapes'] += 1

        def run(it, maps=maps):
            for m in maps:
                for v in m['rep'][2:]:
                    if isinstance(v, Opaque):
                        pass
            lay = basic_layout_val(maps)
            r = it.run(f_ser, [Ref(Cell(lay)), Adt('ValueSerializer', None, [])])
            if r.variant != 'Ok':
                raise Violation('C15', 'serialising the layout failed', {})
            value = r.f[0]
            st, res = load_value(it, value)
            orig = layout_to_py(it, lay)
            if st != 'ok':
                raise Violation('C15', 'the saved layout is rejected on reload: %s' % (res if isinstance(res, str) else '<message>'),
                                {'saved': to_python(value), 'layout': orig})
            back = layout_to_py(it, res)
            diff = same_layout(it, orig, back, stats)
            if diff is not None:
                raise Violation('C15', 'the reloaded layout differs: ' + diff, {'saved': to_python(value), 'layout': orig})
            return to_python(value)
        for it, (kind, res) in explore(run):
            stats['paths'] += 1
            stats['mir_steps'] += it.steps
            if kind == 'ok':
                if len(samples) < 3 and nm.startswith('concrete'):
                    samples.append({'shape': nm, 'saved_json': res})
                continue
            if kind == 'viol':
                viols.append((res.what, res.ctx, it))
            else:
                viols.append(('panic during save/reload: ' + res, {'layout': None}, it))
    log('[C15] %d shapes, %d paths, %d symbolic violations' % (stats['shapes'], stats['paths'], len(viols)))
    # native confirmation
    seen = {}
    for what, ctx, it in viols:
        role = what.split(':')[0]
        if seen.get(role, 0) >= 3:
            continue
        seen[role] = seen.get(role, 0) + 1
        lay = ctx.get('layout')
        if lay is None:
            oc.inconclusive.append('symbolic violation without a concrete layout: ' + what)
            continue
        conc = _concretise_layout(it, lay)
        r = native.ask({'kind': 'save_reload', 'layout': conc})
        case = {'kind': 'save_reload', 'layout': conc, 'property': 'C15', 'what': what}
        if 'panic' in r:
            oc.violations.append((role, 'save/reload panicked natively: %s' % r['panic'], case))
        elif 'ok' in r and r['ok'].get('same') is False:
            case['native'] = r['ok']
            oc.violations.append((role, 'layout %r saved as %s reloads as %r' % (conc, r['ok'].get('saved'), r['ok'].get('reloaded', r['ok'].get('rejected'))), case))
        else:
            oc.inconclusive.append('ENGINE-MISMATCH (symbolic violation not reproduced natively): %s on %r -> %r' % (what, conc, r))
    # differential validation: serialisation of concrete layouts through MIR + model serializer vs serde_json natively
    validated = 0
    for nm, maps in c15_shapes('quick', rng)[:7]:
        it = Interp(prog, keys=KeyTheory(mapper.DOMAIN))
        conc_maps = []
        for m in maps:
            rep = m['rep']
            if rep[0] == 'Special':
                rep = ('Special', rep[1], 130, 30)
            conc_maps.append(dict(m, rep=rep))
        lay = basic_layout_val(conc_maps)
        r = it.run(f_ser, [Ref(Cell(lay)), Adt('ValueSerializer', None, [])])
        mine = to_python(r.f[0])
        nat = native.ask({'kind': 'save_reload', 'layout': layout_to_py(it, lay)})
        validated += 1
        if 'ok' not in nat or json.loads(nat['ok']['saved']) != _names(mine):
            oc.inconclusive.append('model serializer disagrees with serde_json on %s: %r vs %r' % (nm, _names(mine), nat))
            break
    native.close()
    cov = {
        'explanation': 'derived Serialize impls of Layout/Mapping/Repeat/KeyCode (crate MIR) run against a model serializer producing a serde_json::Value, then parse_layout_from_json + convert (crate MIR) on that Value; '
                       'the reloaded layout must equal the original: keys compared per path (a symbolic key forks into its 484 written names, each parsed back by the real parse_key_code/KeyCode::from_str trie), delay/interval compared by validity queries over all i32',
        'evaluations': stats['paths'], 'distinct_nontrivial': stats['paths'],
        'rule': 'one evaluation = one symbolic path (layout shape x key code of the symbolic position); distinct by construction',
        'samples': samples or [{'shape': 'symbolic-key/from-final', 'note': '484 paths, one per key code'}],
        'shapes': stats['shapes'], 'paths': stats['paths'], 'mir_statements_executed': stats['mir_steps'],
        'solver': {'validity queries on delay/interval (symbolic i32)': stats['queries']},
        'traces_validated_against_impl': validated,
        'functions_encoded': ['<keys::Layout/Mapping/Repeat as Serialize>::serialize', '<KeyCode as Serialize>::serialize', 'parse_layout_from_json and all parse_* callees', 'KeyCode::from_str (_parse trie)', 'convert and callees'],
        'models': ['serde Serializer data model -> Value (serdemodel.py)', 'serde_json::Map as sorted association list', 'String/str models'],
        'bounds': 'layouts of <= 3 mappings, triggers <= 3 keys, outputs <= 3 keys, chords <= 2 keys; every key code in each of five positions (from-final, from-modifier, to, absorbing, repeat keys)',
    }
    rc = oc.report()
    write_evidence('C15', tier, seed, cov, ['the model serializer\'s correspondence to serde_json\'s writer (checked on concrete layouts natively every run)',
                                            'bytes on disk = serde_json text of that Value (serde_json\'s writer/parser are dependency code)'], time.time() - t0, len(oc.violations))
    return rc


def _names(v):
    return v


def _concretise_layout(it, lay):
    syms = set()
    for m in lay:
        for fld in ('from', 'to', 'absorbing'):
            for k in m[fld]:
                if isinstance(k, str):
                    syms.add(k)
        if isinstance(m['repeat'], dict):
            for k in m['repeat']['keys']:
                if isinstance(k, str):
                    syms.add(k)
    sat, model = it.keys.solve(syms)
    zm = it.model() if it.solver is not None else None

    def kc(k):
        return model.get(k, 30) if isinstance(k, str) else k

    def num(x):
        if isinstance(x, int):
            return x
        if zm is not None:
            try:
                v = zm.eval(x, model_completion=True).as_long()
                return v - (1 << 32) if v >= (1 << 31) else v
            except Exception:
                pass
        return 130
    out = []
    for m in lay:
        r = m['repeat']
        if isinstance(r, dict):
            r = {'keys': [kc(k) for k in r['keys']], 'delay_ms': num(r['delay_ms']), 'interval_ms': num(r['interval_ms'])}
        out.append({'from': [kc(k) for k in m['from']], 'to': [kc(k) for k in m['to']], 'repeat': r, 'absorbing': [kc(k) for k in m['absorbing']]})
    return out
