"""Value domain of the MIR symbolic interpreter."""


class Cell:
    """A mutable memory location (a MIR local, a boxed value, a map slot)."""
    __slots__ = ('v',)

    def __init__(self, v=None):
        self.v = v


class Ref:
    """Reference / raw pointer to a place: base cell + projection path.
    path elements: ('f', i) field, ('i', n) index."""
    __slots__ = ('cell', 'path')

    def __init__(self, cell, path=()):
        self.cell = cell
        self.path = path

    def __repr__(self):
        return '&<%x>%r' % (id(self.cell) & 0xffff, self.path)


class Adt:
    """struct / tuple / enum variant / closure environment."""
    __slots__ = ('ty', 'variant', 'f')

    def __init__(self, ty, variant, f):
        self.ty = ty
        self.variant = variant
        self.f = f

    def __repr__(self):
        if self.variant:
            return '%s::%s%r' % (self.ty, self.variant, self.f)
        return '%s%r' % (self.ty, self.f)


class VecV:
    """Vec<T> / array / slice storage with a concrete length per path."""
    __slots__ = ('items',)

    def __init__(self, items):
        self.items = items

    def __repr__(self):
        return 'vec%r' % (self.items,)


class MapV:
    """HashMap/HashSet/BTreeMap/serde_json::Map: insertion-ordered association list."""
    __slots__ = ('entries', 'kind')

    def __init__(self, kind='hash'):
        self.entries = []   # list of [key, Cell(value)]
        self.kind = kind

    def __repr__(self):
        return 'map%r' % ([(k, c.v) for k, c in self.entries],)


class IterV:
    __slots__ = ('kind', 'a', 'b', 'c')

    def __init__(self, kind, a=None, b=None, c=None):
        self.kind = kind
        self.a = a
        self.b = b
        self.c = c

    def __repr__(self):
        return 'iter:%s' % self.kind


class EnumC:
    """C-like enum value (KeyCode, Row, ...). d: int | Sym | z3 BitVec."""
    __slots__ = ('ty', 'd')

    def __init__(self, ty, d):
        self.ty = ty
        self.d = d

    def __repr__(self):
        return '%s(%s)' % (self.ty, self.d)


class Sym:
    """A key-code symbol handled by the native equality theory (keytheory.py)."""
    __slots__ = ('name',)

    def __init__(self, name):
        self.name = name

    def __repr__(self):
        return '$' + self.name

    def __eq__(self, o):
        return isinstance(o, Sym) and o.name == self.name

    def __hash__(self):
        return hash(('Sym', self.name))


class Opaque:
    """A named symbolic scalar (e.g. delay_ms of a template mapping). It is copied around as
    is; arithmetic/branching uses the attached z3 bit-vector term. Pickles by name."""
    __slots__ = ('name', 'bits', '_term')

    def __init__(self, name, bits=32):
        self.name = name
        self.bits = bits
        self._term = None

    @property
    def term(self):
        if self._term is None:
            import z3
            self._term = z3.BitVec(self.name, self.bits)
        return self._term

    def __reduce__(self):
        return (Opaque, (self.name, self.bits))

    def __repr__(self):
        return '?' + self.name

    def __eq__(self, o):
        return isinstance(o, Opaque) and o.name == self.name

    def __hash__(self):
        return hash(('Opaque', self.name))


class Uninit:
    def __repr__(self):
        return 'UNINIT'


UNINIT = Uninit()


class Panic(Exception):
    """The interpreted program panicked (first-class outcome)."""


class Unsupported(Exception):
    """The engine met a construct/callee it has no semantics for -> inconclusive (exit 2)."""


class PathInfeasible(Exception):
    pass


class OutOfBound(PathInfeasible):
    """the path leaves the explored bound (e.g. a key symbol cast to an integer is none of the representative codes);
    it is dropped and counted, never reported as held or violated"""
    pass


class Violation(Exception):
    def __init__(self, prop, what, ctx=None):
        Exception.__init__(self, prop, what, ctx)
        self.prop = prop
        self.what = what
        self.ctx = ctx


UNIT = Adt('()', None, [])


def some(v):
    return Adt('Option', 'Some', [v])


def none():
    return Adt('Option', 'None', [])


def ok(v):
    return Adt('Result', 'Ok', [v])


def err(v):
    return Adt('Result', 'Err', [v])


def clone_val(v):
    """Deep copy of an owned value (Clone semantics; also used for snapshots).
    References are kept as they are (shared borrow)."""
    if isinstance(v, Adt):
        return Adt(v.ty, v.variant, [clone_val(x) for x in v.f])
    if isinstance(v, VecV):
        return VecV([clone_val(x) for x in v.items])
    if isinstance(v, MapV):
        m = MapV(v.kind)
        m.entries = [[clone_val(k), Cell(clone_val(c.v))] for k, c in v.entries]
        return m
    if isinstance(v, EnumC):
        return v   # immutable in practice
    return v
