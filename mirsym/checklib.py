"""Shared plumbing of the checks: evidence files, known findings, replay files, exit codes."""
import hashlib
import json
import os
import sys
import time

from .frontend import VERIF, REPO, BUILD

# evidence/ describes runs against /repo itself; a run pointed at another checkout (VERIF_REPO, used for seeded changes)
# writes its evidence and replay files under build/ so that it never overwrites the committed record
_OTHER = os.path.realpath(REPO) != '/repo'
EVIDENCE_DIR = os.environ.get('VERIF_EVIDENCE_DIR') or (os.path.join(BUILD, 'evidence-other-checkout') if _OTHER else os.path.join(VERIF, 'evidence'))
REPLAY_DIR = os.path.join(BUILD, 'replays-other-checkout') if _OTHER else os.path.join(VERIF, 'replays')
KNOWN = os.path.join(VERIF, 'known_findings.json')

LEVELS = {}
for _p in ('C01', 'C02', 'C03', 'C04', 'C05', 'C06', 'C07', 'C08', 'C09', 'C10', 'C11', 'C12', 'C19', 'C20'):
    LEVELS[_p] = 'model_checking'
for _p in ('C13', 'C14', 'C15', 'C16', 'C17', 'C18'):
    LEVELS[_p] = 'other'


def log(msg):
    sys.stderr.write(msg + '\n')
    sys.stderr.flush()


def load_known():
    try:
        d = json.load(open(KNOWN))
    except OSError:
        return []
    return d.get('findings', [])


def write_evidence(prop, tier, seed, coverage, assumptions, wall_s, violations, extra=None):
    os.makedirs(EVIDENCE_DIR, exist_ok=True)
    ev = {
        'property_id': prop,
        'tier': tier,
        'seed': int(seed),
        'level': LEVELS[prop],
        'coverage': coverage,
        'assumptions': assumptions,
        'wall_s': round(float(wall_s), 2),
        'violations': int(violations),
    }
    if extra:
        ev.update(extra)
    p = os.path.join(EVIDENCE_DIR, prop + '.json')
    tmp = p + '.tmp%d' % os.getpid()
    with open(tmp, 'w') as f:
        json.dump(ev, f, indent=1, sort_keys=False, default=str)
    os.replace(tmp, p)
    return p


def write_replay(prop, case):
    os.makedirs(REPLAY_DIR, exist_ok=True)
    blob = json.dumps(case, sort_keys=True, default=str)
    h = hashlib.sha1(blob.encode()).hexdigest()[:12]
    p = os.path.join(REPLAY_DIR, '%s-%s.json' % (prop, h))
    with open(p, 'w') as f:
        f.write(blob)
    return p


class Outcome:
    """collects confirmed violations / known findings / inconclusive reasons of one property run"""

    def __init__(self, prop):
        self.prop = prop
        self.violations = []      # (role, description, replay case)
        self.known_hits = []      # (finding, description)
        self.inconclusive = []

    def report(self, known=None):
        """print the interface lines; returns the exit code"""
        known = load_known() if known is None else known
        mine = [k for k in known if k.get('property') == self.prop and k.get('status', 'open') == 'open']
        rc = 0
        printed = set()
        for role, desc, case in self.violations:
            hit = None
            for k in mine:
                if k.get('role') == role:
                    hit = k
                    break
            if hit is not None:
                key = (hit.get('role'),)
                if key not in printed:
                    printed.add(key)
                    print('KNOWN-FINDING: property=%s %s' % (self.prop, hit.get('what', role)))
                continue
            path = write_replay(self.prop, case)
            print('VIOLATION property=%s replay=%s' % (self.prop, path))
            print('  ' + desc)
            rc = 1
        if rc == 0 and self.inconclusive:
            for r in self.inconclusive[:5]:
                print('INCONCLUSIVE property=%s %s' % (self.prop, r))
            rc = 2
        sys.stdout.flush()
        return rc
