"""mirsym core: symbolic interpreter for rustc MIR (text form of -Zunpretty=mir).

A *path* is its list of decisions; forking is by decision replay (re-execution from the
entry point or from a snapshot with the decision prefix). Branches on key symbols are
decided by the native equality theory (keytheory.py), branches on z3 terms by an
incremental z3 solver; both outcomes feasible => the alternative is registered in
`new_branches` and the first outcome is followed.
"""
import re

import z3

from .values import (Cell, Ref, Adt, VecV, MapV, IterV, EnumC, Sym, Opaque, UNINIT, UNIT,
                     Panic, Unsupported, PathInfeasible, OutOfBound, clone_val, some, none)
from .program import strip_generics
from .symstr import SStr, chars_of
from . import models

INT_BITS = {'u8': 8, 'i8': 8, 'u16': 16, 'i16': 16, 'u32': 32, 'i32': 32, 'u64': 64, 'i64': 64,
            'usize': 64, 'isize': 64, 'u128': 128, 'i128': 128, 'char': 32, 'bool': 1}

_CH_UNMASK = {'\x01': '(', '\x02': ')', '\x03': '[', '\x04': ']', '\x05': '{', '\x06': '}',
              '\x07': '<', '\x08': '>', '\x0b': ',', '\x0c': '"'}

_STD_DISCR = {'None': 0, 'Some': 1, 'Ok': 0, 'Err': 1, 'Continue': 0, 'Break': 1,
              'Null': 0, 'Bool': 1, 'Number': 2, 'String': 3, 'Array': 4, 'Object': 5,
              'Less': -1, 'Equal': 0, 'Greater': 1}


_TRANSPARENT = tuple(p + w for p in ('', 'std::mem::', 'core::mem::', 'std::ptr::', 'core::ptr::', 'std::mem::manually_drop::')
                     for w in ('ManuallyDrop<', 'MaybeDangling<', 'Unique<', 'NonNull<'))


_LAZY_DEREF = re.compile(r'<[A-Z][A-Z_0-9]* as Deref>::deref')


def rust_unescape(body):
    out = []
    i = 0
    while i < len(body):
        c = body[i]
        if c != '\\':
            out.append(c)
            i += 1
            continue
        d = body[i + 1]
        if d in 'nrt0\\\'"':
            out.append({'n': '\n', 'r': '\r', 't': '\t', '0': '\0', '\\': '\\', "'": "'", '"': '"'}[d])
            i += 2
        elif d == 'x':
            out.append(chr(int(body[i + 2:i + 4], 16)))
            i += 4
        elif d == 'u':
            j = body.index('}', i)
            out.append(chr(int(body[i + 3:j], 16)))
            i = j + 1
        else:
            out.append(d)
            i += 2
    return ''.join(out)


def bytes_unescape(body):
    """body of a b"..." literal -> list of ints"""
    out = []
    i = 0
    while i < len(body):
        c = body[i]
        if c != '\\':
            out.extend(c.encode('utf-8'))
            i += 1
            continue
        d = body[i + 1]
        if d in 'nrt0\\\'"':
            out.append(ord({'n': '\n', 'r': '\r', 't': '\t', '0': '\0', '\\': '\\', "'": "'", '"': '"'}[d]))
            i += 2
        elif d == 'x':
            out.append(int(body[i + 2:i + 4], 16))
            i += 4
        else:
            raise Unsupported('byte escape \\' + d)
    return out


def is_sym(v):
    return z3.is_expr(v)


def wrap(v, bits, signed):
    v &= (1 << bits) - 1
    if signed and v >= 1 << (bits - 1):
        v -= 1 << bits
    return v


class Interp:
    def __init__(self, prog, decisions=None, keys=None, env=None):
        self.p = prog
        self.steps = 0
        self.decisions = list(decisions or [])
        self.dpos = 0
        self.new_branches = []
        self.solver = None           # created lazily (most mapper paths never need z3)
        self.pc = []                 # z3 literals of this path
        self.known = {}              # ast id -> (term kept alive, decision)
        self.keys = keys             # KeyTheory or None
        self.env = env
        self.stats = {'z3_checks': 0, 'key_forks': 0, 'z3_forks': 0, 'choose_forks': 0}
        self.models_hit = set()
        self.funcs_run = set()
        self.max_steps = 5_000_000
        self.overrides = {}
        self.frames = []
        self.depth = 0

    # ------------------------------------------------------------------ solver
    def _solver(self):
        if self.solver is None:
            self.solver = z3.Solver()
        return self.solver

    def assume(self, cond):
        """add a z3 constraint to the path condition without branching"""
        if isinstance(cond, bool):
            if not cond:
                raise PathInfeasible()
            return
        self._solver().add(cond)
        self.pc.append(cond)

    def check_sat(self, *extra):
        s = self._solver()
        self.stats['z3_checks'] += 1
        s.push()
        try:
            for e in extra:
                s.add(e)
            r = s.check()
        finally:
            s.pop()
        if r == z3.unknown:
            raise Unsupported('solver returned unknown: %s' % s.reason_unknown())
        return r == z3.sat

    def model(self, *extra):
        s = self._solver()
        s.push()
        try:
            for e in extra:
                s.add(e)
            if s.check() != z3.sat:
                return None
            return s.model()
        finally:
            s.pop()

    # ------------------------------------------------------------------ decisions
    def _next_decision(self, alternatives_of):
        """alternatives_of(): () -> (chosen, [other feasible outcomes]) evaluated only when exploring"""
        if self.dpos < len(self.decisions):
            d = self.decisions[self.dpos]
            self.dpos += 1
            return d
        chosen, others = alternatives_of()
        for o in others:
            self.new_branches.append(self.decisions + [o])
        self.decisions.append(chosen)
        self.dpos += 1
        return chosen

    def decide(self, cond):
        """cond: python bool or z3 BoolRef -> python bool for this path"""
        if isinstance(cond, bool):
            return cond
        if isinstance(cond, int):
            return bool(cond)
        if not z3.is_expr(cond):
            raise Unsupported('branch on %r' % (cond,))
        if z3.is_bv(cond):
            cond = cond != 0
        cond = z3.simplify(cond)
        if z3.is_true(cond):
            return True
        if z3.is_false(cond):
            return False
        key = cond.get_id()
        k = self.known.get(key)
        if k is not None:
            return k[1]

        if self.dpos < len(self.decisions):
            # replay: every solver-decided condition (forced or forked) is recorded
            d = self.decisions[self.dpos]
            self.dpos += 1
        else:
            t_ok = self.check_sat(cond)
            f_ok = self.check_sat(z3.Not(cond)) if t_ok else True
            if t_ok and f_ok:
                self.stats['z3_forks'] += 1
                self.new_branches.append(self.decisions + [False])
                d = True
            elif t_ok:
                d = True
            elif f_ok:
                d = False
            else:
                raise PathInfeasible()
            self.decisions.append(d)
            self.dpos += 1
        lit = cond if d else z3.Not(cond)
        self._solver().add(lit)
        self.pc.append(lit)
        self.known[key] = (cond, d)
        nc = z3.Not(cond)
        self.known[nc.get_id()] = (nc, not d)
        return d

    def decide_eq(self, a, b):
        """equality of key values (Sym | int) under the native theory; forks when open"""
        if isinstance(a, Sym):
            a = a.name
        if isinstance(b, Sym):
            b = b.name
        r = self.keys.ask(a, b)
        if r is not None:
            return r
        if self.dpos < len(self.decisions):
            d = self.decisions[self.dpos]
            self.dpos += 1
        else:
            self.stats['key_forks'] += 1
            self.new_branches.append(self.decisions + [False])
            self.decisions.append(True)
            self.dpos += 1
            d = True
        self.keys.assert_lit(a, b, d)
        return d

    def keq(self, a, b):
        """equality oracle interface used by the monitors (keys: int | symbol name)"""
        return self.decide_eq(a, b)

    def veq(self, a, b):
        return self.decide(self.eq(a, b))

    def choose(self, n):
        """environment nondeterminism: fork over n alternatives"""
        if n <= 1:
            return 0
        if self.dpos < len(self.decisions):
            d = self.decisions[self.dpos]
            self.dpos += 1
            return d
        self.stats['choose_forks'] += 1
        for i in range(1, n):
            self.new_branches.append(self.decisions + [i])
        self.decisions.append(0)
        self.dpos += 1
        return 0

    # ------------------------------------------------------------------ places
    def resolve(self, frame, place):
        local, proj = place
        cell = frame[local]
        path = ()
        for pr in proj:
            k = pr[0]
            if k == 'deref':
                r = self.read(cell, path)
                if isinstance(r, Adt) and r.ty in ('Box', 'Unique', 'NonNull') and len(r.f) == 1:
                    while isinstance(r, Adt) and r.ty in ('Box', 'Unique', 'NonNull') and len(r.f) == 1:
                        r = r.f[0]
                if not isinstance(r, Ref):
                    raise Unsupported('deref of %r' % (r,))
                cell, path = r.cell, r.path
            elif k == 'field':
                cur = self.read(cell, path)
                if cur is UNINIT or self._transparent(pr):
                    continue
                path = path + (('f', pr[1]),)
            elif k == 'downcast':
                pass
            elif k == 'index':
                idx = frame[pr[1]].v
                if not isinstance(idx, int):
                    idx = self.concretize_index(idx, cell, path)
                path = path + (('i', idx),)
            elif k == 'constindex':
                if pr[2]:
                    n = len(self.read(cell, path).items)
                    path = path + (('i', n - pr[1]),)
                else:
                    path = path + (('i', pr[1]),)
            else:
                raise Unsupported('projection %r' % (pr,))
        return cell, path

    @staticmethod
    def _transparent(pr):
        """field projections through MaybeUninit/ManuallyDrop/MaybeDangling wrappers are transparent"""
        ty = pr[2] if len(pr) > 2 else ''
        return ty.startswith(_TRANSPARENT)

    def concretize_index(self, idx, cell, path):
        """symbolic index into a sequence: fork over the feasible positions"""
        v = self.read(cell, path)
        n = len(v.items) if isinstance(v, VecV) else None
        if n is None:
            raise Unsupported('symbolic index into %r' % (v,))
        for i in range(n):
            if self.decide(idx == i):
                return i
        # out of bounds on this path
        return n

    def read(self, cell, path):
        v = cell.v
        for k, i in path:
            if k == 'f':
                try:
                    v = v.f[i]
                except (AttributeError, IndexError):
                    raise Unsupported('field %d of %r' % (i, v))
            else:
                items = v.items
                if i >= len(items) or i < 0:
                    raise Panic('index out of bounds')
                v = items[i]
        return v

    def write(self, cell, path, val):
        if not path:
            cell.v = val
            return
        v = cell.v
        for k, i in path[:-1]:
            v = v.f[i] if k == 'f' else v.items[i]
        k, i = path[-1]
        if k == 'f':
            if v is UNINIT or v is None:
                raise Unsupported('field write into uninitialised aggregate')
            while len(v.f) <= i:
                v.f.append(None)
            v.f[i] = val
        else:
            if i >= len(v.items):
                raise Panic('index out of bounds (write)')
            v.items[i] = val

    def deref(self, x):
        while isinstance(x, Ref):
            x = self.read(x.cell, x.path)
        return x

    # ------------------------------------------------------------------ constants / operands
    def const(self, text, fn):
        t = text.strip()
        m = re.fullmatch(r'(-?\d+)_(\w+)', t)
        if m:
            return int(m.group(1))
        if t == 'true':
            return True
        if t == 'false':
            return False
        if t == '()':
            return UNIT
        if t.startswith('ZeroSized: '):
            return Adt('fnitem:' + t[11:], None, []) if not t[11:].startswith('{closure') else Adt(t[11:], None, [])
        if t == 'RangeFull':
            return Adt('RangeFull', None, [])
        if re.fullmatch(r'(std::option::)?Option::<.*>::None', t):
            return none()
        if t.startswith('fn:'):
            return Adt('fnitem:' + t[3:], None, [])
        if re.search(r'promoted\[\d+\]$', t):
            parts = t.split('::')
            for i in range(len(parts)):
                f = self.p.funcs.get('const ' + '::'.join(parts[i:]))
                if f is not None:
                    return self.run(f, [])
            raise Unsupported('promoted ' + t)
        m = re.fullmatch(r'\{alloc\d+: &(\w+)\}', t)
        if m:
            return Ref(Cell(Adt('static:' + m.group(1), None, [])))
        if t.startswith('b"'):
            return Ref(Cell(VecV(bytes_unescape(t[2:-1]))))
        if t.startswith('"'):
            return rust_unescape(t[1:-1])
        m = re.fullmatch(r"'(.*)'", t, re.S)
        if m:
            body = m.group(1)
            if body in _CH_UNMASK:
                return ord(_CH_UNMASK[body])
            return ord(rust_unescape(body))
        if t.endswith('}') and '::{constant#' in t:
            parts = t.split('::')
            for k in range(len(parts)):
                c = self.p.simple_consts.get('::'.join(parts[k:]))
                if c is not None:
                    return self.const(c, fn)
        m = re.fullmatch(r'((?:\w+::)*\w+)', t)
        if m:
            path = t.split('::')
            r = self.p.lookup_type(path)
            if r is not None and r[1] is not None:
                td, variant = r
                if td.clike:
                    return EnumC(td.name, td.disc[variant])
                return Adt(td.name, variant, [])
            parts = t.split('::')
            for k in range(len(parts)):
                f = self.p.funcs.get('const ' + '::'.join(parts[k:]))
                if f is not None:
                    return self.run(f, [])
                c = self.p.simple_consts.get('::'.join(parts[k:]))
                if c is not None:
                    return self.const(c, fn)
        raise Unsupported('const ' + t)

    def operand(self, frame, op, fn):
        if op[0] == 'const':
            return self.const(op[1], fn)
        cell, path = self.resolve(frame, op[1])
        v = self.read(cell, path)
        return v

    def type_of(self, fn, op):
        if op[0] == 'const':
            m = re.fullmatch(r'-?\d+_(\w+)', op[1].strip())
            if m:
                return m.group(1)
            if op[1].strip().startswith("'"):
                return 'char'
            return None
        local, proj = op[1]
        if not proj:
            return fn.locals.get(local)
        last = proj[-1]
        if last[0] == 'field' and len(last) > 2:
            return last[2]
        return None

    # ------------------------------------------------------------------ equality
    def eq(self, a, b):
        """structural equality -> python bool (forking on key symbols) or z3 Bool"""
        if isinstance(a, EnumC):
            a = a.d
        if isinstance(b, EnumC):
            b = b.d
        if isinstance(a, Sym) or isinstance(b, Sym):
            if z3.is_expr(a) or z3.is_expr(b):
                raise Unsupported('mixing key symbols and z3 terms')
            return self.decide_eq(a, b)
        if isinstance(a, bool) and isinstance(b, bool):
            return a == b
        if isinstance(a, (int, bool)) and isinstance(b, (int, bool)):
            return int(a) == int(b)
        if isinstance(a, Adt) and isinstance(b, Adt):
            if a.variant != b.variant or len(a.f) != len(b.f):
                return False
            for x, y in zip(a.f, b.f):
                if not self.decide(self.eq(x, y)):
                    return False
            return True
        if isinstance(a, VecV) and isinstance(b, VecV):
            if len(a.items) != len(b.items):
                return False
            for x, y in zip(a.items, b.items):
                if not self.decide(self.eq(x, y)):
                    return False
            return True
        if isinstance(a, str) and isinstance(b, str):
            return a == b
        if isinstance(a, (str, SStr)) and isinstance(b, (str, SStr)):
            ca, cb = chars_of(a), chars_of(b)
            if len(ca) != len(cb):
                return False
            for x, y in zip(ca, cb):
                if not self.decide(self.eq(x, y)):
                    return False
            return True
        if isinstance(a, Opaque) or isinstance(b, Opaque):
            if isinstance(a, Opaque) and isinstance(b, Opaque) and a.name == b.name:
                return True
            ta = a.term if isinstance(a, Opaque) else a
            tb = b.term if isinstance(b, Opaque) else b
            if ta is None or tb is None:
                raise Unsupported('comparison of opaque value %r with %r' % (a, b))
            return ta == tb
        if isinstance(a, Ref) and isinstance(b, Ref):
            return self.eq(self.deref(a), self.deref(b))
        if z3.is_expr(a) or z3.is_expr(b):
            if isinstance(a, bool):
                a = z3.BoolVal(a)
            if isinstance(b, bool):
                b = z3.BoolVal(b)
            return a == b
        if type(a) is type(b):
            return a == b
        raise Unsupported('eq of %r and %r' % (a, b))

    # ------------------------------------------------------------------ arithmetic
    def to_bv(self, v, bits):
        if z3.is_expr(v):
            if z3.is_bool(v):
                return z3.If(v, z3.BitVecVal(1, bits), z3.BitVecVal(0, bits))
            if v.size() != bits:
                raise Unsupported('bit-width mismatch %d vs %d' % (v.size(), bits))
            return v
        return z3.BitVecVal(int(v), bits)

    def binop(self, op, a, b, ty):
        if isinstance(a, EnumC):
            a = a.d
        if isinstance(b, EnumC):
            b = b.d
        if op == 'Eq':
            return self.eq(a, b)
        if op == 'Ne':
            r = self.eq(a, b)
            return (not r) if isinstance(r, bool) else z3.Not(r)
        if isinstance(a, Opaque):
            a = a.term
        if isinstance(b, Opaque):
            b = b.term
        if a is None or b is None or isinstance(a, Sym) or isinstance(b, Sym):
            raise Unsupported('arithmetic %s on %r, %r' % (op, a, b))
        if ty == 'bool' or (isinstance(a, bool) and isinstance(b, bool)) or (z3.is_expr(a) and z3.is_bool(a)):
            return self.bool_binop(op, a, b)
        bits = INT_BITS.get(ty)
        if bits is None:
            if z3.is_expr(a):
                bits = a.size()
            elif z3.is_expr(b) and op not in ('Shl', 'Shr', 'ShlUnchecked', 'ShrUnchecked'):
                bits = b.size()
            else:
                bits = 64
            signed = False
            if ty is not None and not (z3.is_expr(a) or z3.is_expr(b)):
                # unknown non-integer type with concrete ints: pointer-sized
                pass
        signed = bool(ty) and ty.startswith('i')
        conc = not z3.is_expr(a) and not z3.is_expr(b)
        if conc:
            a = int(a)
            b = int(b)
            if op in ('Lt', 'Le', 'Gt', 'Ge'):
                return {'Lt': a < b, 'Le': a <= b, 'Gt': a > b, 'Ge': a >= b}[op]
            if op == 'Cmp':
                return Adt('Ordering', 'Less' if a < b else ('Equal' if a == b else 'Greater'), [])
            lo, hi = (-(1 << (bits - 1)), (1 << (bits - 1)) - 1) if signed else (0, (1 << bits) - 1)
            base = op.replace('WithOverflow', '').replace('Unchecked', '')
            if base in ('Add', 'Sub', 'Mul'):
                r = a + b if base == 'Add' else (a - b if base == 'Sub' else a * b)
                of = r < lo or r > hi
                r2 = wrap(r, bits, signed)
                return Adt('()', None, [r2, of]) if 'WithOverflow' in op else r2
            if base == 'Div':
                if b == 0:
                    raise Panic('division by zero')
                q = abs(a) // abs(b)
                return wrap(q if (a < 0) == (b < 0) else -q, bits, signed)
            if base == 'Rem':
                if b == 0:
                    raise Panic('remainder by zero')
                r = abs(a) % abs(b)
                return wrap(r if a >= 0 else -r, bits, signed)
            if base == 'BitAnd':
                return wrap(a & b, bits, signed)
            if base == 'BitOr':
                return wrap(a | b, bits, signed)
            if base == 'BitXor':
                return wrap(a ^ b, bits, signed)
            if base == 'Shl':
                return wrap(a << (b % bits), bits, signed)
            if base == 'Shr':
                if signed:
                    return wrap(a >> (b % bits), bits, signed)
                return (a & ((1 << bits) - 1)) >> (b % bits)
            raise Unsupported('binop ' + op)
        # symbolic
        x = self.to_bv(a, bits)
        if op in ('Shl', 'Shr', 'ShlUnchecked', 'ShrUnchecked'):
            if z3.is_expr(b):
                if b.size() < bits:
                    b = z3.ZeroExt(bits - b.size(), b)
                elif b.size() > bits:
                    b = z3.Extract(bits - 1, 0, b)
                y = b
            else:
                y = z3.BitVecVal(int(b) % bits, bits)
            if op.startswith('Shl'):
                return x << y
            return (x >> y) if signed else z3.LShR(x, y)
        y = self.to_bv(b, bits)
        if op == 'Lt':
            return x < y if signed else z3.ULT(x, y)
        if op == 'Le':
            return x <= y if signed else z3.ULE(x, y)
        if op == 'Gt':
            return x > y if signed else z3.UGT(x, y)
        if op == 'Ge':
            return x >= y if signed else z3.UGE(x, y)
        if op == 'Cmp':
            lt = x < y if signed else z3.ULT(x, y)
            if self.decide(lt):
                return Adt('Ordering', 'Less', [])
            if self.decide(x == y):
                return Adt('Ordering', 'Equal', [])
            return Adt('Ordering', 'Greater', [])
        base = op.replace('WithOverflow', '').replace('Unchecked', '')
        if base == 'Add':
            r = x + y
            if 'WithOverflow' in op:
                of = z3.Not(z3.BVAddNoOverflow(x, y, signed))
                if signed:
                    of = z3.Or(of, z3.Not(z3.BVAddNoUnderflow(x, y)))
                return Adt('()', None, [r, of])
            return r
        if base == 'Sub':
            r = x - y
            if 'WithOverflow' in op:
                if signed:
                    of = z3.Or(z3.Not(z3.BVSubNoOverflow(x, y)), z3.Not(z3.BVSubNoUnderflow(x, y, True)))
                else:
                    of = z3.ULT(x, y)
                return Adt('()', None, [r, of])
            return r
        if base == 'Mul':
            r = x * y
            if 'WithOverflow' in op:
                of = z3.Not(z3.BVMulNoOverflow(x, y, signed))
                if signed:
                    of = z3.Or(of, z3.Not(z3.BVMulNoUnderflow(x, y)))
                return Adt('()', None, [r, of])
            return r
        if base == 'Div':
            return x / y if signed else z3.UDiv(x, y)
        if base == 'Rem':
            return z3.SRem(x, y) if signed else z3.URem(x, y)
        if base == 'BitAnd':
            return x & y
        if base == 'BitOr':
            return x | y
        if base == 'BitXor':
            return x ^ y
        raise Unsupported('binop ' + op)

    def bool_binop(self, op, a, b):
        if isinstance(a, bool) and isinstance(b, bool):
            if op == 'BitAnd':
                return a and b
            if op == 'BitOr':
                return a or b
            if op == 'BitXor':
                return a != b
            if op in ('Lt', 'Le', 'Gt', 'Ge'):
                return {'Lt': a < b, 'Le': a <= b, 'Gt': a > b, 'Ge': a >= b}[op]
            raise Unsupported('bool binop ' + op)
        x = a if z3.is_expr(a) else z3.BoolVal(bool(a))
        y = b if z3.is_expr(b) else z3.BoolVal(bool(b))
        if op == 'BitAnd':
            return z3.And(x, y)
        if op == 'BitOr':
            return z3.Or(x, y)
        if op == 'BitXor':
            return z3.Xor(x, y)
        raise Unsupported('bool binop ' + op)

    def key_representatives(self, name):
        """boundary-value concretisation: the codes a key symbol may take when the code under test does arithmetic on it
        (the unchanged tree never does). Lowest and highest valid code, the valid codes next to 2^8 and 2^9, the codes 256
        and 512 away from every constant the symbol has been compared with, and one ordinary code."""
        dom = sorted(self.keys.domain)
        ds = set(dom)
        reps = [dom[0], dom[-1]]
        for b in (256, 512):
            lo = [v for v in dom if v < b]
            hi = [v for v in dom if v >= b]
            if lo:
                reps.append(lo[-1])
            if hi:
                reps.append(hi[0])
        r = self.keys.canon(name)
        consts = sorted(x for x in self.keys.ne.get(r, ()) if isinstance(x, int))
        seen_c = 0
        for c in consts:
            added = False
            for dlt in (256, -256, 512, -512):
                if c + dlt in ds:
                    reps.append(c + dlt)
                    added = True
            seen_c += 1 if added else 0
            if seen_c >= 8:
                break
        for v in dom:
            if v >= 59 and v not in consts:
                reps.append(v)
                break
        out = []
        for v in reps:
            if v not in out:
                out.append(v)
        return out

    def concretise_key(self, sym):
        name = sym.name
        c = self.keys.canon(name)
        if isinstance(c, int):
            return c
        for v in self.key_representatives(name):
            if self.decide_eq(name, v):
                self.stats['key_casts_concretised'] = self.stats.get('key_casts_concretised', 0) + 1
                return v
        self.stats['key_casts_cut'] = self.stats.get('key_casts_cut', 0) + 1
        raise OutOfBound('a key symbol cast to an integer is none of its representative codes')

    def cast(self, a, src_ty, dst_ty, kind):
        if isinstance(a, EnumC):
            a = a.d
        if isinstance(a, Sym):
            if self.keys is None:
                raise Unsupported('numeric cast of a key symbol (use z3-valued keys in this harness)')
            a = self.concretise_key(a)
        if kind == 'IntToInt':
            bits = INT_BITS.get(dst_ty)
            if bits is None:
                raise Unsupported('cast to ' + dst_ty)
            signed = dst_ty.startswith('i')
            if isinstance(a, bool):
                a = int(a)
            if isinstance(a, int):
                return wrap(a, bits, signed)
            if isinstance(a, Opaque):
                a = a.term
                if a is None:
                    raise Unsupported('cast of opaque value')
            if z3.is_bool(a):
                return z3.If(a, z3.BitVecVal(1, bits), z3.BitVecVal(0, bits))
            sb = a.size()
            if sb == bits:
                return a
            if sb > bits:
                return z3.Extract(bits - 1, 0, a)
            ssigned = bool(src_ty) and src_ty.startswith('i')
            return z3.SignExt(bits - sb, a) if ssigned else z3.ZeroExt(bits - sb, a)
        if kind.startswith('PointerCoercion') or kind == 'Transmute' or kind.startswith('Ptr') or kind.startswith('PointerExpose') or kind.startswith('PointerWith'):
            return a
        raise Unsupported('cast kind ' + kind)

    # ------------------------------------------------------------------ rvalues
    def rvalue(self, frame, rv, fn):
        k = rv[0]
        if k == 'use':
            return self.operand(frame, rv[1], fn)
        if k == 'ref':
            cell, path = self.resolve(frame, rv[2])
            return Ref(cell, path)
        if k == 'discriminant':
            cell, path = self.resolve(frame, rv[1])
            v = self.read(cell, path)
            return self.discriminant(v)
        if k == 'adt_named':
            tyname = strip_generics(rv[1])
            path = tyname.split('::')
            r = self.p.lookup_type(path)
            vals = dict((f, self.operand(frame, o, fn)) for f, o in rv[2])
            if r is not None:
                td, variant = r
                if td.kind == 'struct':
                    order = td.fields
                else:
                    order = dict(td.variants)[variant]
                try:
                    return Adt(td.name, variant, [vals[f] for f in order])
                except KeyError:
                    raise Unsupported('aggregate fields of %s: %r vs %r' % (tyname, order, list(vals)))
            last = path[-1]
            std = {'Range': ['start', 'end'], 'RangeFrom': ['start'], 'RangeTo': ['end'],
                   'RangeInclusive': ['start', 'end', 'exhausted'], 'RangeToInclusive': ['end']}
            if last in std:
                return Adt(last, None, [vals[f] for f in std[last]])
            # lazy_static wrapper structs and other private-field-only structs
            return Adt(last, None, [v for _, v in sorted(vals.items())])
        if k == 'adt_tuple':
            tyname = strip_generics(rv[1])
            path = tyname.split('::')
            vals = [self.operand(frame, o, fn) for o in rv[2]]
            r = self.p.lookup_type(path)
            if r is not None:
                td, variant = r
                return Adt(td.name, variant, vals)
            if len(path) >= 2:
                return Adt(path[-2], path[-1], vals)
            return Adt(path[-1], path[-1], vals)
        if k == 'adt_unit':
            tyname = strip_generics(rv[1])
            path = tyname.split('::')
            r = self.p.lookup_type(path)
            if r is not None:
                td, variant = r
                if variant is not None:
                    if td.clike:
                        return EnumC(td.name, td.disc[variant])
                    return Adt(td.name, variant, [])
                return Adt(td.name, None, [])
            if path[-1] == 'None':
                return none()
            if len(path) >= 2:
                return Adt(path[-2], path[-1], [])
            raise Unsupported('unit aggregate ' + rv[1])
        if k == 'tuple':
            return Adt('()', None, [self.operand(frame, o, fn) for o in rv[1]])
        if k == 'array':
            return VecV([self.operand(frame, o, fn) for o in rv[1]])
        if k == 'repeat':
            v = self.operand(frame, rv[1], fn)
            m = re.match(r'(?:const )?(\d+)(?:_usize)?', rv[2].strip())
            if not m:
                raise Unsupported('repeat count ' + rv[2])
            return VecV([clone_val(v) for _ in range(int(m.group(1)))])
        if k == 'closure':
            return Adt(rv[1], None, [self.operand(frame, o, fn) for _, o in rv[2]])
        if k == 'binop':
            a = self.operand(frame, rv[2], fn)
            b = self.operand(frame, rv[3], fn)
            ty = self.type_of(fn, rv[2]) or self.type_of(fn, rv[3])
            if rv[1] in ('Shl', 'Shr', 'ShlUnchecked', 'ShrUnchecked'):
                ty = self.type_of(fn, rv[2])
            return self.binop(rv[1], a, b, ty)
        if k == 'unop':
            a = self.operand(frame, rv[2], fn)
            if rv[1] == 'Not':
                if isinstance(a, bool):
                    return not a
                if z3.is_expr(a):
                    return z3.Not(a) if z3.is_bool(a) else ~a
                ty = self.type_of(fn, rv[2])
                bits = INT_BITS.get(ty, 64)
                return wrap(~a, bits, bool(ty) and ty.startswith('i'))
            if rv[1] == 'Neg':
                ty = self.type_of(fn, rv[2])
                if z3.is_expr(a):
                    return -a
                return wrap(-a, INT_BITS.get(ty, 64), True)
            if rv[1] == 'PtrMetadata':
                v = self.deref(a)
                if isinstance(v, VecV):
                    return len(v.items)
                if isinstance(v, str):
                    return len(v.encode())
                raise Unsupported('PtrMetadata of %r' % (v,))
            raise Unsupported('unop ' + rv[1])
        if k == 'cast':
            a = self.operand(frame, rv[1], fn)
            return self.cast(a, self.type_of(fn, rv[1]), rv[2], rv[3])
        if k == 'len':
            cell, path = self.resolve(frame, rv[1])
            return len(self.read(cell, path).items)
        raise Unsupported('rvalue ' + k)

    def discriminant(self, v):
        if isinstance(v, EnumC):
            return v.d
        if isinstance(v, Adt):
            cands = self.p.types.get(v.ty)
            if cands:
                for td in cands:
                    if td.kind == 'enum' and v.variant in td.disc:
                        return td.disc[v.variant]
            if v.variant in _STD_DISCR:
                return _STD_DISCR[v.variant]
        raise Unsupported('discriminant of %r' % (v,))

    # ------------------------------------------------------------------ calls
    def call(self, name, args, fn):
        if name.startswith('<') and _LAZY_DEREF.fullmatch(name):
            return models.dispatch(self, name, args, fn)
        f = self.p.resolve(name)
        if f is not None:
            return self.run(f, args)
        return models.dispatch(self, name, args, fn)

    def call_callable(self, c, args):
        """call a closure value or fn item with positional args"""
        if isinstance(c, Ref):
            c = self.deref(c)
        if isinstance(c, Adt) and c.ty.startswith('fnitem:'):
            return self.call(c.ty[7:], list(args), None)
        if isinstance(c, Adt) and c.ty.startswith('{closure@'):
            f = self.p.closure_fn(c.ty)
            byref = bool(f.params) and f.params[0][1].lstrip().startswith('&')
            return self.run(f, [Ref(Cell(c)) if byref else c] + list(args))
        raise Unsupported('callable %r' % (c,))

    def call_closure_ref(self, cref, args):
        """call a closure through a reference to it (so captured &mut state persists)"""
        c = self.deref(cref)
        if isinstance(c, Adt) and c.ty.startswith('fnitem:'):
            return self.call(c.ty[7:], list(args), None)
        r = cref
        while isinstance(r, Ref):
            inner = self.read(r.cell, r.path)
            if isinstance(inner, Ref):
                r = inner
            else:
                break
        f = self.p.closure_fn(c.ty)
        byref = bool(f.params) and f.params[0][1].lstrip().startswith('&')
        return self.run(f, [r if byref else c] + list(args))

    # ------------------------------------------------------------------ run
    def run(self, fn, args):
        ov = self.overrides.get(fn.name) if self.overrides else None
        if ov is not None:
            return ov(self, args)
        self.funcs_run.add(fn.name)
        self.depth += 1
        if self.depth > 200:
            raise Unsupported('call depth exceeded in ' + fn.name)
        try:
            return self._run(fn, args)
        except Unsupported as e:
            if not getattr(e, 'located', False):
                e.located = True
                e.args = (('%s [in %s]' % (e.args[0] if e.args else '', fn.name)),)
            raise
        finally:
            self.depth -= 1

    def _run(self, fn, args):
        frame = {}
        for i in fn.locals:
            frame[i] = Cell(None)
        if len(args) != fn.argc:
            # closures: (env, (args,)) with the tuple spread into the remaining params
            if len(args) == 2 and isinstance(args[1], Adt) and args[1].ty == '()' and fn.argc == 1 + len(args[1].f):
                args = [args[0]] + list(args[1].f)
            else:
                raise Unsupported('arity mismatch calling %s: %d vs %d' % (fn.name, len(args), fn.argc))
        for (idx, _), v in zip(fn.params, args):
            frame[idx].v = v
        self.frames.append((fn, frame))
        try:
            return self._exec(fn, frame)
        finally:
            self.frames.pop()

    def _exec(self, fn, frame):
        bb = 0
        blocks = fn.blocks
        while True:
            for st in blocks[bb]:
                self.steps += 1
                k = st[0]
                if k == 'assign':
                    val = self.rvalue(frame, st[2], fn)
                    cell, path = self.resolve(frame, st[1])
                    self.write(cell, path, val)
                elif k == 'nop':
                    pass
                elif k == 'goto':
                    bb = st[1]
                    break
                elif k == 'return':
                    return frame[0].v
                elif k == 'switch':
                    bb = self.switch(frame, st, fn)
                    break
                elif k == 'call':
                    dest, callee, cargs, tg = st[1], st[2], st[3], st[4]
                    avals = [self.operand(frame, o, fn) for o in cargs]
                    if callee[0] != 'direct':
                        c = self.operand(frame, callee[1], fn)
                        res = self.call_callable(c, avals)
                    else:
                        res = self.call(callee[1], avals, fn)
                    if dest is not None:
                        cell, path = self.resolve(frame, dest)
                        self.write(cell, path, res)
                    if 'return' not in tg:
                        raise Panic('diverging call returned: ' + callee[1] if callee[0] == 'direct' else 'indirect')
                    bb = tg['return']
                    break
                elif k == 'drop':
                    bb = st[2]['return']
                    break
                elif k == 'assert':
                    c = self.operand(frame, st[2], fn)
                    ok_ = self.decide(c) != st[1]
                    if not ok_:
                        raise Panic('assert failed: ' + ' '.join(st[3])[:100])
                    bb = st[4]['success']
                    break
                elif k == 'setdiscr':
                    raise Unsupported('SetDiscriminant')
                elif k == 'assume':
                    pass
                elif k == 'unreachable':
                    raise Panic('unreachable')
                else:
                    raise Unsupported('statement ' + k)
            else:
                raise Unsupported('block fell through in ' + fn.name)
            if self.steps > self.max_steps:
                raise Unsupported('step budget exceeded')

    def switch(self, frame, st, fn):
        v = self.operand(frame, st[1], fn)
        tg = st[2]
        if isinstance(v, EnumC):
            v = v.d
        if isinstance(v, Opaque):
            if v.term is None:
                raise Unsupported('branch on opaque value ' + v.name)
            v = v.term
        if isinstance(v, Sym):
            c = self.keys.canon(v.name)
            if isinstance(c, int):
                v = c
            else:
                for key, target in tg.items():
                    if key == 'otherwise':
                        continue
                    if self.decide_eq(v, int(key)):
                        return target
                return tg['otherwise']
        if isinstance(v, bool):
            v = int(v)
        if isinstance(v, int):
            t = tg.get(str(v))
            if t is None:
                t = tg.get('otherwise')
            if t is None:
                raise Panic('switchInt without matching target')
            return t
        if z3.is_expr(v):
            if z3.is_bool(v):
                if self.decide(v):
                    return tg['1'] if '1' in tg else tg['otherwise']
                return tg['0'] if '0' in tg else tg['otherwise']
            keys = [k for k in tg if k != 'otherwise']
            if len(keys) > 24:
                return self.big_switch(v, tg, keys)
            for key in keys:
                if self.decide(v == int(key)):
                    return tg[key]
            return tg['otherwise']
        raise Unsupported('switch on %r' % (v,))

    def big_switch(self, v, tg, keys):
        """switchInt with many targets on a z3 value: enumerate the feasible keys with the solver"""
        bits = v.size()
        for key in keys:
            kv = int(key)
            if kv < 0:
                kv &= (1 << bits) - 1
            if self.decide(v == kv):
                return tg[key]
        return tg['otherwise']
