"""String, fmt, io and serde models (registered on import by models.py)."""
import re

import z3

from .models import model, D
from .values import (Cell, Ref, Adt, VecV, MapV, IterV, EnumC, Sym, Opaque, UNIT, Panic, Unsupported,
                     clone_val, some, none, ok, err)


# --------------------------------------------------------------------------- time (Instant / Duration as integers in ms)
def _ms(v):
    """int | z3 BV | z3 Int -> int | z3 Int (milliseconds)"""
    if isinstance(v, Opaque):
        v = v.term
    if z3.is_expr(v) and z3.is_bv(v):
        return z3.BV2Int(v, False)
    return v


@model(exact=('Instant::now', 'std::time::Instant::now'))
def m_instant_now(it, name, a):
    return Adt('Instant', None, [it.env.now(it)])


@model(exact=('Duration::from_millis', 'std::time::Duration::from_millis'))
def m_from_millis(it, name, a):
    return Adt('Duration', None, [_ms(a[0])])


@model(exact=('Duration::from_secs', 'std::time::Duration::from_secs'))
def m_from_secs(it, name, a):
    return Adt('Duration', None, [_ms(a[0]) * 1000])


@model(exact=('Duration::as_millis', 'std::time::Duration::as_millis'))
def m_as_millis(it, name, a):
    return it.deref(a[0]).f[0]


@model(r'<Instant as Add<Duration>>::add', r'<std::time::Instant as Add<std::time::Duration>>::add', exact=('Instant::checked_add',))
def m_instant_add(it, name, a):
    x, y = it.deref(a[0]), it.deref(a[1])
    r = Adt('Instant', None, [x.f[0] + y.f[0]])
    return some(r) if name.endswith('checked_add') else r


@model(r'<Instant as Sub>::sub', r'<Instant as Sub<Instant>>::sub', exact=('Instant::duration_since', 'Instant::saturating_duration_since'))
def m_instant_sub(it, name, a):
    x, y = it.deref(a[0]).f[0], it.deref(a[1]).f[0]
    if isinstance(x, int) and isinstance(y, int):
        return Adt('Duration', None, [max(0, x - y)])
    return Adt('Duration', None, [z3.If(x >= y, x - y, 0)])


@model(r'<Instant as Sub<Duration>>::sub')
def m_instant_sub_dur(it, name, a):
    return Adt('Instant', None, [it.deref(a[0]).f[0] - it.deref(a[1]).f[0]])


@model(r'<Instant as AddAssign<Duration>>::add_assign')
def m_instant_add_assign(it, name, a):
    from .models import innermost_ref
    r = innermost_ref(it, a[0])
    cur = it.read(r.cell, r.path)
    it.write(r.cell, r.path, Adt('Instant', None, [cur.f[0] + it.deref(a[1]).f[0]]))
    return UNIT


@model(r'<(Instant|Duration) as PartialOrd>::(ge|gt|le|lt)', r'<(Instant|Duration) as PartialEq>::(eq|ne)')
def m_time_cmp(it, name, a):
    x, y = it.deref(a[0]).f[0], it.deref(a[1]).f[0]
    op = name.split('::')[-1]
    return {'ge': lambda: x >= y, 'gt': lambda: x > y, 'le': lambda: x <= y, 'lt': lambda: x < y,
            'eq': lambda: x == y, 'ne': lambda: x != y}[op]()


@model(exact=('Instant::elapsed',))
def m_instant_elapsed(it, name, a):
    now = it.env.now(it)
    x = it.deref(a[0]).f[0]
    return Adt('Duration', None, [z3.If(now >= x, now - x, 0)])


@model(exact=('std::thread::sleep', 'thread::sleep'))
def m_sleep(it, name, a):
    if it.env is not None and hasattr(it.env, 'sleep'):
        it.env.sleep(it, a[0].f[0])
    return UNIT


@model(exact=('std::io::_eprint', 'std::io::_print', 'std::io::stdio::_eprint', 'std::io::stdio::_print'))
def m_print(it, name, a):
    return UNIT

from . import fmtmodel  # noqa: E402,F401


# --------------------------------------------------------------------------- memory / raw I/O stubs
@model(r'std::mem::size_of::<libc::input_event>', r'core::mem::size_of::<libc::input_event>', r'std::mem::size_of::<input_event>')
def m_size_of_input_event(it, name, a):
    return 24     # x86-64 / aarch64 Linux; checked against the native build (ping request)


@model(r'(std|core)::mem::size_of::<(\w+)>')
def m_size_of(it, name, a):
    from .interp import INT_BITS
    ty = re.search(r'size_of::<(\w+)>', name).group(1)
    if ty in INT_BITS and ty != 'bool':
        return INT_BITS[ty] // 8
    raise Unsupported(name)


@model(r'(std|alloc)::vec::from_elem::<.*>')
def m_from_elem(it, name, a):
    n = a[1]
    if not isinstance(n, int):
        raise Unsupported('vec![x; n] with symbolic n')
    return VecV([clone_val(a[0]) for _ in range(n)])


@model(exact=('nix::unistd::write',))
def m_nix_write(it, name, a):
    return it.env.write(it, a[0], it.deref(a[1]))


@model(exact=('nix::unistd::read',))
def m_nix_read(it, name, a):
    from .models import innermost_ref
    r = innermost_ref(it, a[1])
    return it.env.read(it, a[0], it.read(r.cell, r.path))


# --------------------------------------------------------------------------- num-traits FromPrimitive default methods
@model(r'<(\w+) as (num_traits::)?(cast::)?FromPrimitive>::from_(u8|u16|u32|usize|i8|i16|i32|isize|u64|i64)')
def m_from_primitive(it, name, a):
    """default methods forward to the derived from_i64/from_u64, which are in the crate's MIR"""
    m = re.fullmatch(r'<(\w+) as (?:num_traits::)?(?:cast::)?FromPrimitive>::from_(\w+)', name)
    ty, src = m.groups()
    v = a[0]
    signed = src.startswith('i')
    tgt = 'from_i64' if signed else 'from_u64'
    v64 = it.cast(v, src, 'i64' if signed else 'u64', 'IntToInt')
    summ = getattr(it.p, 'from_primitive_summary', {}).get(ty)
    if summ is not None and z3.is_expr(v64):
        # summary established by exhaustive concrete execution of the derived function (iocheck.summarise_from_primitive)
        lo, hi, domain = summ
        indom = z3.Or([z3.And(v64 >= l, v64 <= h) if signed else z3.And(z3.UGE(v64, l), z3.ULE(v64, h))
                       for l, h in domain])
        if it.decide(indom):
            return some(EnumC(ty, z3.Extract(31, 0, v64)))
        return none()
    f = it.p.resolve('<%s as FromPrimitive>::%s' % (ty, tgt))
    if f is None:
        raise Unsupported('derived %s::%s not found' % (ty, tgt))
    return it.run(f, [v64])
