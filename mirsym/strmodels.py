"""String, fmt, io and serde models (registered on import by models.py)."""
import re

import z3

from .models import _meth, model, D
from .values import (Cell, Ref, Adt, VecV, MapV, IterV, EnumC, Sym, Opaque, UNIT, Panic, Unsupported,
                     clone_val, some, none, ok, err)


# --------------------------------------------------------------------------- time (Instant / Duration as integers in ms)
def _ms(v):
    """int | z3 BV | z3 Int -> int | z3 Int (milliseconds)"""
    if isinstance(v, Opaque):
        v = v.term
    if z3.is_expr(v) and z3.is_bv(v):
        return z3.BV2Int(v, False)
    return v


@model(exact=('Instant::now', 'std::time::Instant::now'))
def m_instant_now(it, name, a):
    return Adt('Instant', None, [it.env.now(it)])


@model(exact=('Duration::from_millis', 'std::time::Duration::from_millis'))
def m_from_millis(it, name, a):
    return Adt('Duration', None, [_ms(a[0])])


@model(exact=('Duration::from_secs', 'std::time::Duration::from_secs'))
def m_from_secs(it, name, a):
    return Adt('Duration', None, [_ms(a[0]) * 1000])


@model(exact=('Duration::as_millis', 'std::time::Duration::as_millis'))
def m_as_millis(it, name, a):
    return it.deref(a[0]).f[0]


@model(r'<Instant as Add<Duration>>::add', r'<std::time::Instant as Add<std::time::Duration>>::add', exact=('Instant::checked_add',))
def m_instant_add(it, name, a):
    x, y = it.deref(a[0]), it.deref(a[1])
    r = Adt('Instant', None, [x.f[0] + y.f[0]])
    return some(r) if name.endswith('checked_add') else r


@model(r'<Instant as Sub>::sub', r'<Instant as Sub<Instant>>::sub', exact=('Instant::duration_since', 'Instant::saturating_duration_since'))
def m_instant_sub(it, name, a):
    x, y = it.deref(a[0]).f[0], it.deref(a[1]).f[0]
    if isinstance(x, int) and isinstance(y, int):
        return Adt('Duration', None, [max(0, x - y)])
    return Adt('Duration', None, [z3.If(x >= y, x - y, 0)])


@model(exact=('Instant::checked_duration_since', 'std::time::Instant::checked_duration_since'))
def m_instant_checked_since(it, name, a):
    x, y = it.deref(a[0]).f[0], it.deref(a[1]).f[0]
    ge = x >= y
    if it.decide(ge):
        return some(Adt('Duration', None, [x - y]))
    return none()


@model(exact=('Instant::checked_sub', 'std::time::Instant::checked_sub'))
def m_instant_checked_sub(it, name, a):
    return some(Adt('Instant', None, [it.deref(a[0]).f[0] - it.deref(a[1]).f[0]]))


@model(exact=('Duration::saturating_sub', 'Duration::checked_sub', 'Duration::as_secs', 'Duration::subsec_millis', 'Duration::is_zero', 'Duration::from_micros', 'Duration::from_nanos'))
def m_duration_misc(it, name, a):
    op = _meth(name)
    x = it.deref(a[0]).f[0] if isinstance(it.deref(a[0]), Adt) else a[0]
    if op == 'saturating_sub':
        y = it.deref(a[1]).f[0]
        return Adt('Duration', None, [z3.If(x >= y, x - y, 0) if (z3.is_expr(x) or z3.is_expr(y)) else max(0, x - y)])
    if op == 'checked_sub':
        y = it.deref(a[1]).f[0]
        if it.decide(x >= y):
            return some(Adt('Duration', None, [x - y]))
        return none()
    if op == 'is_zero':
        return x == 0
    raise Unsupported(name)


@model(r'<Instant as Sub<Duration>>::sub')
def m_instant_sub_dur(it, name, a):
    return Adt('Instant', None, [it.deref(a[0]).f[0] - it.deref(a[1]).f[0]])


@model(r'<Instant as AddAssign<Duration>>::add_assign')
def m_instant_add_assign(it, name, a):
    from .models import innermost_ref
    r = innermost_ref(it, a[0])
    cur = it.read(r.cell, r.path)
    it.write(r.cell, r.path, Adt('Instant', None, [cur.f[0] + it.deref(a[1]).f[0]]))
    return UNIT


@model(r'<(Instant|Duration) as PartialOrd>::(ge|gt|le|lt)', r'<(Instant|Duration) as PartialEq>::(eq|ne)')
def m_time_cmp(it, name, a):
    x, y = it.deref(a[0]).f[0], it.deref(a[1]).f[0]
    op = _meth(name)
    return {'ge': lambda: x >= y, 'gt': lambda: x > y, 'le': lambda: x <= y, 'lt': lambda: x < y,
            'eq': lambda: x == y, 'ne': lambda: x != y}[op]()


@model(exact=('Instant::elapsed',))
def m_instant_elapsed(it, name, a):
    now = it.env.now(it)
    x = it.deref(a[0]).f[0]
    return Adt('Duration', None, [z3.If(now >= x, now - x, 0)])


@model(exact=('std::thread::sleep', 'thread::sleep'))
def m_sleep(it, name, a):
    if it.env is not None and hasattr(it.env, 'sleep'):
        it.env.sleep(it, a[0].f[0])
    return UNIT


@model(exact=('std::io::_eprint', 'std::io::_print', 'std::io::stdio::_eprint', 'std::io::stdio::_print'))
def m_print(it, name, a):
    return UNIT

from . import fmtmodel  # noqa: E402,F401


# --------------------------------------------------------------------------- memory / raw I/O stubs
@model(r'std::mem::size_of::<libc::input_event>', r'core::mem::size_of::<libc::input_event>', r'std::mem::size_of::<input_event>')
def m_size_of_input_event(it, name, a):
    return 24     # x86-64 / aarch64 Linux; checked against the native build (ping request)


@model(r'(std|core)::mem::size_of::<(\w+)>')
def m_size_of(it, name, a):
    from .interp import INT_BITS
    ty = re.search(r'size_of::<(\w+)>', name).group(1)
    if ty in INT_BITS and ty != 'bool':
        return INT_BITS[ty] // 8
    raise Unsupported(name)


@model(r'(std|alloc)::vec::from_elem::<.*>')
def m_from_elem(it, name, a):
    n = a[1]
    if not isinstance(n, int):
        raise Unsupported('vec![x; n] with symbolic n')
    return VecV([clone_val(a[0]) for _ in range(n)])


@model(exact=('nix::unistd::write',))
def m_nix_write(it, name, a):
    return it.env.write(it, a[0], it.deref(a[1]))


@model(exact=('nix::unistd::read',))
def m_nix_read(it, name, a):
    from .models import innermost_ref
    r = innermost_ref(it, a[1])
    return it.env.read(it, a[0], it.read(r.cell, r.path))


# --------------------------------------------------------------------------- num-traits FromPrimitive default methods
@model(r'<(\w+) as (num_traits::)?(cast::)?FromPrimitive>::from_(u8|u16|u32|usize|i8|i16|i32|isize|u64|i64)')
def m_from_primitive(it, name, a):
    """default methods forward to the derived from_i64/from_u64, which are in the crate's MIR"""
    m = re.fullmatch(r'<(\w+) as (?:num_traits::)?(?:cast::)?FromPrimitive>::from_(\w+)', name)
    ty, src = m.groups()
    v = a[0]
    signed = src.startswith('i')
    tgt = 'from_i64' if signed else 'from_u64'
    v64 = it.cast(v, src, 'i64' if signed else 'u64', 'IntToInt')
    summ = getattr(it.p, 'from_primitive_summary', {}).get(ty)
    if summ is not None and z3.is_expr(v64):
        # summary established by exhaustive concrete execution of the derived function (iocheck.summarise_from_primitive)
        lo, hi, domain = summ
        indom = z3.Or([z3.And(v64 >= l, v64 <= h) if signed else z3.And(z3.UGE(v64, l), z3.ULE(v64, h))
                       for l, h in domain])
        if it.decide(indom):
            return some(EnumC(ty, z3.Extract(31, 0, v64)))
        return none()
    f = it.p.resolve('<%s as FromPrimitive>::%s' % (ty, tgt))
    if f is None:
        raise Unsupported('derived %s::%s not found' % (ty, tgt))
    return it.run(f, [v64])


# --------------------------------------------------------------------------- strings
from .symstr import SStr, chars_of, normalize, sconcat, schr  # noqa: E402
from .models import innermost_ref, iter_of, drain_iter, as_callable_ref  # noqa: E402


def S(it, x):
    v = it.deref(x)
    if isinstance(v, (str, SStr)):
        return v
    if isinstance(v, Adt) and v.ty == 'Box' and len(v.f) == 1:
        return S(it, v.f[0])
    raise Unsupported('expected a string, got %r' % (v,))


def conc(v):
    if isinstance(v, SStr):
        raise Unsupported('operation needs a concrete string')
    return v


@model(r'<(std::string::)?String as (Deref|DerefMut|Clone|ToOwned|Borrow<str>|AsRef<str>|AsRef<\[u8\]>|ToString|Display)>::\w+',
       r'<str as (ToOwned|ToString|AsRef<str>)>::\w+', r'<&str as (ToString|Into<.*>|ToOwned)>::\w+',
       r'<(std::string::)?String as (From|Into)<.*>>::(from|into)', r'<&?(mut )?str as Into<.*>>::into',
       r'<Box<str> as From<.*>>::from', r'<Cow<.*> as (Deref|ToString)>::\w+',
       exact=('std::string::String::as_str', 'String::as_str', 'std::string::String::as_mut_str', 'core::str::<impl str>::to_string',
              'str::<impl str>::to_owned', 'std::string::String::into_boxed_str', 'std::string::String::from_utf8_lossy',
              'core::str::<impl str>::to_owned', 'std::str::<impl str>::to_string', 'std::string::String::from_str',
              'std::borrow::Cow::into_owned', 'Cow::into_owned', 'str::<impl str>::into_string', 'std::string::String::into_string'))
def m_str_identity(it, name, a):
    return S(it, a[0])


@model(exact=('std::string::String::new', 'String::new', 'std::string::String::with_capacity', 'String::with_capacity'))
def m_string_new(it, name, a):
    return ''


def utf8_of(it, c):
    """UTF-8 bytes of a char (int | BV32): list of int | BV8; forks on the length class of a symbolic char"""
    if isinstance(c, int):
        return list(chr(c).encode('utf-8', 'surrogatepass'))
    e = lambda t: z3.simplify(z3.Extract(7, 0, t))
    if it.decide(z3.ULT(c, 0x80)):
        return [e(c)]
    if it.decide(z3.ULT(c, 0x800)):
        return [e(0xC0 | z3.LShR(c, 6)), e(0x80 | (c & 0x3F))]
    if it.decide(z3.ULT(c, 0x10000)):
        return [e(0xE0 | z3.LShR(c, 12)), e(0x80 | (z3.LShR(c, 6) & 0x3F)), e(0x80 | (c & 0x3F))]
    return [e(0xF0 | z3.LShR(c, 18)), e(0x80 | (z3.LShR(c, 12) & 0x3F)), e(0x80 | (z3.LShR(c, 6) & 0x3F)), e(0x80 | (c & 0x3F))]


def utf8_bytes(it, s):
    if isinstance(s, str):
        return list(s.encode('utf-8'))
    out = []
    for c in s.chars:
        out.extend(utf8_of(it, c))
    return out


@model(exact=('core::str::<impl str>::len', 'std::string::String::len', 'String::len'))
def m_str_len(it, name, a):
    return len(utf8_bytes(it, S(it, a[0])))


@model(exact=('core::str::<impl str>::is_empty', 'std::string::String::is_empty', 'String::is_empty'))
def m_str_is_empty(it, name, a):
    s = S(it, a[0])
    return len(chars_of(s)) == 0


@model(exact=('core::str::<impl str>::chars',))
def m_str_chars(it, name, a):
    return IterV('owned', chars_of(S(it, a[0])), 0)


@model(exact=('core::str::<impl str>::char_indices',))
def m_str_char_indices(it, name, a):
    s = conc(S(it, a[0]))
    out = []
    pos = 0
    for c in s:
        out.append(Adt('()', None, [pos, ord(c)]))
        pos += len(c.encode('utf-8'))
    return IterV('owned', out, 0)


@model(exact=('core::str::<impl str>::bytes',))
def m_str_bytes(it, name, a):
    return IterV('owned', utf8_bytes(it, S(it, a[0])), 0)


@model(exact=('core::str::<impl str>::as_bytes', 'std::string::String::as_bytes', 'std::string::String::into_bytes', 'String::into_bytes'))
def m_str_as_bytes(it, name, a):
    b = VecV(utf8_bytes(it, S(it, a[0])))
    return b if name.endswith('into_bytes') else Ref(Cell(b))


@model(exact=('std::string::String::from_utf8', 'String::from_utf8', 'core::str::from_utf8', 'std::str::from_utf8'))
def m_from_utf8(it, name, a):
    v = it.deref(a[0]) if isinstance(a[0], Ref) else a[0]
    items = v.items
    if not all(isinstance(b, int) for b in items):
        raise Unsupported('from_utf8 of symbolic bytes')
    try:
        return ok(bytes(items).decode('utf-8'))
    except UnicodeDecodeError:
        return err(Adt('Utf8Error', None, []))


@model(exact=('std::string::String::push', 'String::push'))
def m_string_push(it, name, a):
    r = innermost_ref(it, a[0])
    cur = it.read(r.cell, r.path)
    it.write(r.cell, r.path, sconcat(cur, schr(a[1])))
    return UNIT


@model(exact=('std::string::String::push_str', 'String::push_str'), *[r'<(std::string::)?String as (std::ops::)?AddAssign<&str>>::add_assign'])
def m_string_push_str(it, name, a):
    r = innermost_ref(it, a[0])
    cur = it.read(r.cell, r.path)
    it.write(r.cell, r.path, sconcat(cur, S(it, a[1])))
    return UNIT


@model(r'<(std::string::)?String as (std::ops::)?Add<&str>>::add')
def m_string_add(it, name, a):
    return sconcat(S(it, a[0]), S(it, a[1]))


@model(exact=('std::string::String::clear', 'String::clear'))
def m_string_clear(it, name, a):
    r = innermost_ref(it, a[0])
    it.write(r.cell, r.path, '')
    return UNIT


@model(exact=('std::string::String::pop', 'String::pop'))
def m_string_pop(it, name, a):
    r = innermost_ref(it, a[0])
    cur = chars_of(it.read(r.cell, r.path))
    if not cur:
        return none()
    it.write(r.cell, r.path, normalize(cur[:-1]))
    return some(cur[-1])


def _pat(it, p):
    v = it.deref(p)
    if isinstance(v, int):
        return chr(v)
    if isinstance(v, str):
        return v
    if isinstance(v, VecV):
        return [chr(x) for x in v.items]
    raise Unsupported('string pattern %r' % (v,))


def _str_eq(it, x, y):
    if isinstance(x, str) and isinstance(y, str):
        return x == y
    cx, cy = chars_of(x), chars_of(y)
    if len(cx) != len(cy):
        return False
    for p, q in zip(cx, cy):
        if not it.decide(it.eq(p, q)):
            return False
    return True


@model(r'<&?(mut )?(str|std::string::String|String) as PartialEq(<&?(str|std::string::String|String)>)?>::(eq|ne)',
       r'<&?&?str as PartialEq<&?&?(str|std::string::String)>>::(eq|ne)')
def m_str_eq(it, name, a):
    r = _str_eq(it, S(it, a[0]), S(it, a[1]))
    return (not r) if name.endswith('::ne') else r


@model(exact=('core::str::<impl str>::starts_with', 'core::str::<impl str>::ends_with', 'core::str::<impl str>::contains'))
def m_str_test(it, name, a):
    s = S(it, a[0])
    p = _pat(it, a[1]) if not isinstance(it.deref(a[1]), Adt) else None
    op = _meth(name)
    if p is None:
        clo = as_callable_ref(it, a[1])
        cs = chars_of(s)
        if op == 'contains':
            return any(it.decide(it.call_closure_ref(clo, [c])) for c in cs)
        if not cs:
            return False
        return it.decide(it.call_closure_ref(clo, [cs[0] if op == 'starts_with' else cs[-1]]))
    if isinstance(s, SStr):
        cs = chars_of(s)
        if isinstance(p, str) and len(p) == 1 and op == 'contains':
            return any(it.decide(it.eq(c, ord(p))) for c in cs)
        if isinstance(p, str):
            pc = [ord(c) for c in p]
            if op == 'starts_with':
                return len(cs) >= len(pc) and all(it.decide(it.eq(c, q)) for c, q in zip(cs, pc))
            if op == 'ends_with':
                return len(cs) >= len(pc) and all(it.decide(it.eq(c, q)) for c, q in zip(cs[len(cs) - len(pc):], pc))
        raise Unsupported('%s on a symbolic string' % op)
    if isinstance(p, list):
        if op == 'starts_with':
            return any(s.startswith(c) for c in p)
        if op == 'ends_with':
            return any(s.endswith(c) for c in p)
        return any(c in s for c in p)
    return {'starts_with': s.startswith, 'ends_with': s.endswith, 'contains': s.__contains__}[op](p)


@model(exact=('core::str::<impl str>::find', 'core::str::<impl str>::rfind'))
def m_str_find(it, name, a):
    s = conc(S(it, a[0]))
    p = _pat(it, a[1])
    if isinstance(p, list):
        idx = [s.find(c) for c in p if s.find(c) >= 0]
        i = min(idx) if idx else -1
    else:
        i = s.find(p) if _meth(name) == 'find' else s.rfind(p)
    if i < 0:
        return none()
    return some(len(s[:i].encode('utf-8')))


_WS = ' \t\n\x0b\x0c\r\x85\xa0                　'


@model(exact=('core::str::<impl str>::trim', 'core::str::<impl str>::trim_start', 'core::str::<impl str>::trim_end',
              'core::str::<impl str>::trim_left', 'core::str::<impl str>::trim_right'))
def m_str_trim(it, name, a):
    s = S(it, a[0])
    op = _meth(name)
    if isinstance(s, SStr):
        cs = list(s.chars)

        def is_ws(c):
            if isinstance(c, int):
                return chr(c) in _WS
            return it.decide(z3.Or([c == ord(w) for w in _WS]))
        if op in ('trim', 'trim_start', 'trim_left'):
            while cs and is_ws(cs[0]):
                cs.pop(0)
        if op in ('trim', 'trim_end', 'trim_right'):
            while cs and is_ws(cs[-1]):
                cs.pop()
        return normalize(cs)
    if op == 'trim':
        return s.strip(_WS)
    if op in ('trim_start', 'trim_left'):
        return s.lstrip(_WS)
    return s.rstrip(_WS)


@model(exact=('core::str::<impl str>::trim_matches', 'core::str::<impl str>::trim_start_matches', 'core::str::<impl str>::trim_end_matches',
              'core::str::<impl str>::strip_prefix', 'core::str::<impl str>::strip_suffix'))
def m_str_trim_matches(it, name, a):
    s = conc(S(it, a[0]))
    p = _pat(it, a[1])
    op = _meth(name)
    ps = p if isinstance(p, list) else [p]
    if op == 'strip_prefix':
        for q in ps:
            if s.startswith(q):
                return some(s[len(q):])
        return none()
    if op == 'strip_suffix':
        for q in ps:
            if s.endswith(q):
                return some(s[:len(s) - len(q)])
        return none()
    changed = True
    while changed:
        changed = False
        for q in ps:
            if q and op in ('trim_matches', 'trim_start_matches') and s.startswith(q):
                s = s[len(q):]
                changed = True
            if q and op in ('trim_matches', 'trim_end_matches') and s.endswith(q):
                s = s[:len(s) - len(q)]
                changed = True
    return s


@model(exact=('core::str::<impl str>::to_lowercase', 'str::<impl str>::to_lowercase', 'core::str::<impl str>::to_uppercase', 'str::<impl str>::to_uppercase',
              'core::str::<impl str>::to_ascii_lowercase', 'core::str::<impl str>::to_ascii_uppercase',
              'str::<impl str>::to_ascii_lowercase', 'str::<impl str>::to_ascii_uppercase'))
def m_str_case(it, name, a):
    s = conc(S(it, a[0]))
    op = _meth(name)
    if op == 'to_lowercase':
        return s.lower()
    if op == 'to_uppercase':
        return s.upper()
    if op == 'to_ascii_lowercase':
        return ''.join(c.lower() if ord(c) < 128 else c for c in s)
    return ''.join(c.upper() if ord(c) < 128 else c for c in s)


@model(exact=('core::str::<impl str>::eq_ignore_ascii_case',))
def m_str_eq_ignore_case(it, name, a):
    x, y = conc(S(it, a[0])), conc(S(it, a[1]))
    f = lambda s: ''.join(c.lower() if ord(c) < 128 else c for c in s)
    return f(x) == f(y)


def _sstr_split(it, s, sep):
    parts = []
    cur = []
    for c in s.chars:
        if isinstance(c, int):
            hit = c == ord(sep)
        else:
            hit = it.decide(c == ord(sep))
        if hit:
            parts.append(normalize(cur))
            cur = []
        else:
            cur.append(c)
    parts.append(normalize(cur))
    return parts


@model(exact=('core::str::<impl str>::split', 'core::str::<impl str>::rsplit', 'core::str::<impl str>::splitn', 'core::str::<impl str>::split_terminator',
              'core::str::<impl str>::rsplitn'))
def m_str_split(it, name, a):
    s0 = S(it, a[0])
    op = _meth(name)
    if isinstance(s0, SStr):
        p = _pat(it, a[1])
        if op in ('split', 'rsplit') and isinstance(p, str) and len(p) == 1:
            parts = _sstr_split(it, s0, p)
            if op == 'rsplit':
                parts.reverse()
            return IterV('owned', parts, 0)
        raise Unsupported('%s on a symbolic string' % op)
    s = s0
    if op in ('splitn', 'rsplitn'):
        n, p = a[1], _pat(it, a[2])
        if n == 0:
            return IterV('owned', [], 0)
        parts = s.split(p, n - 1) if op == 'splitn' else list(reversed(s.rsplit(p, n - 1)))
        return IterV('owned', parts, 0)
    p = _pat(it, a[1])
    if isinstance(p, list):
        import re as _re
        parts = _re.split('[' + _re.escape(''.join(p)) + ']', s)
    else:
        parts = s.split(p)
    if op == 'split_terminator' and parts and parts[-1] == '':
        parts.pop()
    if op == 'rsplit':
        parts.reverse()
    return IterV('owned', parts, 0)


# char::is_whitespace (Unicode White_Space) and u8::is_ascii_whitespace, as documented by std
_WS_UNICODE = [(0x09, 0x0d), (0x20, 0x20), (0x85, 0x85), (0xa0, 0xa0), (0x1680, 0x1680), (0x2000, 0x200a), (0x2028, 0x2029),
               (0x202f, 0x202f), (0x205f, 0x205f), (0x3000, 0x3000)]
_WS_ASCII = [(0x09, 0x0a), (0x0c, 0x0d), (0x20, 0x20)]


def _is_ws(it, c, ranges):
    if isinstance(c, int):
        return any(lo <= c <= hi for lo, hi in ranges)
    return it.decide(z3.Or([z3.And(z3.UGE(c, lo), z3.ULE(c, hi)) if lo != hi else c == lo for lo, hi in ranges]))


@model(exact=('core::str::<impl str>::split_whitespace', 'core::str::<impl str>::split_ascii_whitespace'))
def m_str_split_ws(it, name, a):
    ranges = _WS_ASCII if _meth(name) == 'split_ascii_whitespace' else _WS_UNICODE
    parts = []
    cur = []
    for c in chars_of(S(it, a[0])):
        if _is_ws(it, c, ranges):
            if cur:
                parts.append(normalize(cur))
            cur = []
        else:
            cur.append(c)
    if cur:
        parts.append(normalize(cur))
    return IterV('owned', parts, 0)


@model(r'alloc::slice::<impl \[.*\]>::(join|concat)(::<.*>)?', r'<\[.*\] as (alloc::slice::)?(Join|Concat)<.*>>::(join|concat)',
       exact=('alloc::slice::<impl [T]>::join', 'alloc::slice::<impl [T]>::concat'))
def m_slice_join(it, name, a):
    v = it.deref(a[0])
    items = v.items if hasattr(v, 'items') else list(v)
    sep = S(it, a[1]) if ('join' in name.split('::')[-1] or name.rstrip('>').endswith('join')) and len(a) > 1 else ''
    out = ''
    for i, x in enumerate(items):
        if i:
            out = sconcat(out, sep)
        out = sconcat(out, S(it, x))
    return out


@model(exact=('core::str::<impl str>::lines',))
def m_str_lines(it, name, a):
    s = conc(S(it, a[0]))
    parts = s.split('\n')
    if parts and parts[-1] == '':
        parts.pop()
    return IterV('owned', [p[:-1] if p.endswith('\r') else p for p in parts], 0)


@model(exact=('core::str::<impl str>::split_once', 'core::str::<impl str>::rsplit_once'))
def m_str_split_once(it, name, a):
    s = conc(S(it, a[0]))
    p = _pat(it, a[1])
    i = s.find(p) if _meth(name) == 'split_once' else s.rfind(p)
    if i < 0:
        return none()
    return some(Adt('()', None, [s[:i], s[i + len(p):]]))


@model(exact=('core::str::<impl str>::replace', 'str::<impl str>::replace'))
def m_str_replace(it, name, a):
    hay, rep = S(it, a[0]), S(it, a[2])
    pat = _pat(it, a[1])
    if isinstance(hay, str) and isinstance(rep, str) and isinstance(pat, str):
        return hay.replace(pat, rep)
    # symbolic text: left-to-right, non-overlapping matches of a concrete needle, each candidate position decided by the solver
    if not isinstance(pat, str) or pat == '':
        raise Unsupported('str::replace with a symbolic or empty needle on symbolic text')
    cs = chars_of(hay)
    need = [ord(c) for c in pat]
    out = []
    i = 0
    while i < len(cs):
        hit = False
        if i + len(need) <= len(cs):
            hit = True
            for p_, q_ in zip(cs[i:i + len(need)], need):
                if isinstance(p_, int):
                    if p_ != q_:
                        hit = False
                        break
                elif not it.decide(it.eq(p_, q_)):
                    hit = False
                    break
        if hit:
            out.extend(chars_of(rep))
            i += len(need)
        else:
            out.append(cs[i])
            i += 1
    return normalize(out)


@model(exact=('core::str::<impl str>::repeat', 'str::<impl str>::repeat'))
def m_str_repeat(it, name, a):
    return conc(S(it, a[0])) * a[1]


@model(r'<(str|std::string::String|String) as (std::ops::)?Index<(std::ops::)?Range(To|From|Full|Inclusive|ToInclusive)?(<usize>)?>>::index',
       r'core::str::traits::<impl (std::ops::)?Index<.*> for str>::index', r'core::str::<impl str>::get')
def m_str_index(it, name, a):
    from .models import _range_bounds
    s0 = S(it, a[0])
    if isinstance(s0, SStr):
        # byte offsets = char offsets as long as every character is ASCII (checked / decided)
        for c in s0.chars:
            if isinstance(c, int):
                if c >= 0x80:
                    raise Unsupported('slicing a symbolic string with non-ASCII characters')
            elif not it.decide(z3.ULT(c, 0x80)):
                raise Unsupported('slicing a symbolic string with non-ASCII characters')
        try:
            lo, hi = _range_bounds(it, a[1], len(s0.chars))
        except Panic:
            if _meth(name) == 'get':
                return none()
            raise
        r = normalize(s0.chars[lo:hi])
        return some(r) if _meth(name) == 'get' else r
    s = s0
    b = s.encode('utf-8')
    try:
        lo, hi = _range_bounds(it, a[1], len(b))
        r = b[lo:hi].decode('utf-8')
    except (Panic, UnicodeDecodeError):
        if _meth(name) == 'get':
            return none()
        raise Panic('byte index is out of bounds or not a char boundary')
    return some(r) if _meth(name) == 'get' else r


@model(r'core::str::<impl str>::parse::<.*>', r'<(\w+) as FromStr>::from_str')
def m_str_parse(it, name, a):
    n = name
    m = re.search(r'parse::<((?:\w+::)*\w+)>$', n) or re.search(r'<((?:\w+::)*\w+) as FromStr>', n)
    ty = m.group(1).split('::')[-1]
    from .interp import INT_BITS
    if ty in INT_BITS:
        from .models import m_parse_int
        return m_parse_int(it, 'core::str::<impl str>::parse::<%s>' % ty, a)
    f = it.p.resolve('<%s as FromStr>::from_str' % ty)
    if f is None:
        raise Unsupported('parse::<%s>' % ty)
    return it.run(f, [a[0]])


@model(r'<(std::string::)?String as FromIterator<.*>>::from_iter(::<.*>)?')
def m_string_from_iter(it, name, a):
    s = ''
    for c in drain_iter(it, iter_of(it, a[0])):
        c = it.deref(c)
        s = sconcat(s, c if isinstance(c, (str, SStr)) else schr(c))
    return s


@model(r'<(std::string::)?String as Extend<.*>>::extend(::<.*>)?')
def m_string_extend(it, name, a):
    r = innermost_ref(it, a[0])
    cur = it.read(r.cell, r.path)
    for c in drain_iter(it, iter_of(it, a[1])):
        c = it.deref(c)
        cur = sconcat(cur, c if isinstance(c, (str, SStr)) else schr(c))
    it.write(r.cell, r.path, cur)
    return UNIT


@model(r'<(std::string::)?String as (Hash|PartialOrd|Ord)>::\w+')
def m_str_misc(it, name, a):
    raise Unsupported(name)


@model(exact=('char::methods::<impl char>::to_string', 'core::char::methods::<impl char>::to_string'), *[r'<char as ToString>::to_string'])
def m_char_to_string(it, name, a):
    return schr(it.deref(a[0]))


@model(exact=('char::convert::<impl char>::from_u32', 'core::char::convert::from_u32', 'char::methods::<impl char>::from_u32', 'std::char::from_u32'))
def m_char_from_u32(it, name, a):
    v = a[0]
    if isinstance(v, int):
        if v > 0x10FFFF or 0xD800 <= v <= 0xDFFF:
            return none()
        return some(v)
    raise Unsupported('char::from_u32 of a symbolic value')


@model(r'<(OsStr|OsString|Path|PathBuf|std::path::Path|std::path::PathBuf|std::ffi::OsStr|std::ffi::OsString) as .*>::\w+',
       exact=('Path::new', 'std::path::Path::new', 'Path::to_str', 'Path::to_string_lossy', 'Path::as_os_str', 'OsStr::to_str', 'OsStr::to_string_lossy',
              'PathBuf::as_path', 'Path::to_path_buf', 'PathBuf::from', 'Path::display', 'OsStr::new', 'OsString::into_string', 'std::path::Path::to_str',
              'std::path::Path::to_string_lossy', 'std::path::PathBuf::as_path', 'std::path::Path::to_path_buf', 'std::path::Path::as_os_str',
              'std::ffi::OsStr::to_str', 'std::ffi::OsStr::to_string_lossy', 'std::path::Path::display'))
def m_path_identity(it, name, a):
    s = S(it, a[0])
    op = _meth(name)
    if op in ('to_str',):
        return some(s)
    if op == 'into_string':
        return ok(s)
    return s

from . import serdemodel  # noqa: E402,F401


# --------------------------------------------------------------------------- file-system stubs / wildmatch (C16)
@model(r'(std::fs::)?read_to_string(::<.*>)?', exact=('std::fs::read_to_string', 'read_to_string'))
def m_read_to_string(it, name, a):
    return it.env.read_to_string(it, S(it, a[0]))


@model(r'(std::fs::)?canonicalize(::<.*>)?')
def m_canonicalize(it, name, a):
    if hasattr(it.env, 'canonicalize'):
        return it.env.canonicalize(it, S(it, a[0]))
    return ok(S(it, a[0]))


@model(exact=('PathBuf::new', 'std::path::PathBuf::new'))
def m_pathbuf_new(it, name, a):
    return ''


@model(r'(std::path::)?PathBuf::push(::<.*>)?')
def m_pathbuf_push(it, name, a):
    r = innermost_ref(it, a[0])
    cur = conc(it.read(r.cell, r.path))
    comp = conc(S(it, a[1]))
    if comp.startswith('/'):
        new = comp
    elif cur == '' or cur.endswith('/'):
        new = cur + comp
    else:
        new = cur + '/' + comp
    it.write(r.cell, r.path, new)
    return UNIT


@model(r'(wildmatch::)?WildMatchPattern::<.*>::new', r'(wildmatch::)?WildMatch::new', exact=('WildMatch::new', 'WildMatchPattern::new'))
def m_wild_new(it, name, a):
    return Adt('WildMatch', None, [conc(S(it, a[0]))])


def glob_match(pat, text):
    """wildmatch 2.x contract: * = any sequence, ? = any single character, everything else literal"""
    import functools

    @functools.lru_cache(maxsize=None)
    def m(i, j):
        if i == len(pat):
            return j == len(text)
        if pat[i] == '*':
            return any(m(i + 1, k) for k in range(j, len(text) + 1))
        if j < len(text) and (pat[i] == '?' or pat[i] == text[j]):
            return m(i + 1, j + 1)
        return False
    return m(0, 0)


@model(r'(wildmatch::)?WildMatchPattern::<.*>::matches', r'(wildmatch::)?WildMatch::matches', exact=('WildMatch::matches', 'WildMatchPattern::matches'))
def m_wild_matches(it, name, a):
    w = it.deref(a[0])
    return glob_match(w.f[0], conc(S(it, a[1])))
