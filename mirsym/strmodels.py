"""String, fmt, io and serde models (registered on import by models.py)."""
import re

import z3

from .models import model, D
from .values import (Cell, Ref, Adt, VecV, MapV, IterV, EnumC, Sym, Opaque, UNIT, Panic, Unsupported,
                     clone_val, some, none, ok, err)


# --------------------------------------------------------------------------- time (Instant / Duration as integers in ms)
def _ms(v):
    """int | z3 BV | z3 Int -> int | z3 Int (milliseconds)"""
    if isinstance(v, Opaque):
        v = v.term
    if z3.is_expr(v) and z3.is_bv(v):
        return z3.BV2Int(v, False)
    return v


@model(exact=('Instant::now', 'std::time::Instant::now'))
def m_instant_now(it, name, a):
    return Adt('Instant', None, [it.env.now(it)])


@model(exact=('Duration::from_millis', 'std::time::Duration::from_millis'))
def m_from_millis(it, name, a):
    return Adt('Duration', None, [_ms(a[0])])


@model(exact=('Duration::from_secs', 'std::time::Duration::from_secs'))
def m_from_secs(it, name, a):
    return Adt('Duration', None, [_ms(a[0]) * 1000])


@model(exact=('Duration::as_millis', 'std::time::Duration::as_millis'))
def m_as_millis(it, name, a):
    return it.deref(a[0]).f[0]


@model(r'<Instant as Add<Duration>>::add', r'<std::time::Instant as Add<std::time::Duration>>::add', exact=('Instant::checked_add',))
def m_instant_add(it, name, a):
    x, y = it.deref(a[0]), it.deref(a[1])
    r = Adt('Instant', None, [x.f[0] + y.f[0]])
    return some(r) if name.endswith('checked_add') else r


@model(r'<Instant as Sub>::sub', r'<Instant as Sub<Instant>>::sub', exact=('Instant::duration_since', 'Instant::saturating_duration_since'))
def m_instant_sub(it, name, a):
    x, y = it.deref(a[0]).f[0], it.deref(a[1]).f[0]
    if isinstance(x, int) and isinstance(y, int):
        return Adt('Duration', None, [max(0, x - y)])
    return Adt('Duration', None, [z3.If(x >= y, x - y, 0)])


@model(r'<Instant as Sub<Duration>>::sub')
def m_instant_sub_dur(it, name, a):
    return Adt('Instant', None, [it.deref(a[0]).f[0] - it.deref(a[1]).f[0]])


@model(r'<Instant as AddAssign<Duration>>::add_assign')
def m_instant_add_assign(it, name, a):
    from .models import innermost_ref
    r = innermost_ref(it, a[0])
    cur = it.read(r.cell, r.path)
    it.write(r.cell, r.path, Adt('Instant', None, [cur.f[0] + it.deref(a[1]).f[0]]))
    return UNIT


@model(r'<(Instant|Duration) as PartialOrd>::(ge|gt|le|lt)', r'<(Instant|Duration) as PartialEq>::(eq|ne)')
def m_time_cmp(it, name, a):
    x, y = it.deref(a[0]).f[0], it.deref(a[1]).f[0]
    op = name.split('::')[-1]
    return {'ge': lambda: x >= y, 'gt': lambda: x > y, 'le': lambda: x <= y, 'lt': lambda: x < y,
            'eq': lambda: x == y, 'ne': lambda: x != y}[op]()


@model(exact=('Instant::elapsed',))
def m_instant_elapsed(it, name, a):
    now = it.env.now(it)
    x = it.deref(a[0]).f[0]
    return Adt('Duration', None, [z3.If(now >= x, now - x, 0)])


@model(exact=('std::thread::sleep', 'thread::sleep'))
def m_sleep(it, name, a):
    if it.env is not None and hasattr(it.env, 'sleep'):
        it.env.sleep(it, a[0].f[0])
    return UNIT


@model(exact=('std::io::_eprint', 'std::io::_print', 'std::io::stdio::_eprint', 'std::io::stdio::_print'))
def m_print(it, name, a):
    return UNIT

from . import fmtmodel  # noqa: E402,F401
