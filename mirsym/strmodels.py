"""String, fmt, io and serde models (registered on import by models.py)."""
