"""Model of core::fmt::Arguments as printed in this toolchain's MIR: compact byte templates
(library/core/src/fmt/mod.rs, "Placeholders representation") + rendering of the argument kinds
the crate uses (integers, chars, strings; Display/Debug/LowerHex/UpperHex; fill/width/align/zero)."""
import re

import z3

from .models import model
from .values import Adt, VecV, Ref, Cell, EnumC, Sym, Opaque, UNIT, Unsupported
from .symstr import SStr, chars_of, normalize, sconcat
from .program import strip_generics


def decode_template(tpl):
    parts = []
    i = 0
    while True:
        b = tpl[i]
        i += 1
        if b == 0:
            break
        if b < 0x80:
            parts.append(('lit', bytes(tpl[i:i + b]).decode('utf-8')))
            i += b
        elif b == 0x80:
            ln = tpl[i] | (tpl[i + 1] << 8)
            i += 2
            parts.append(('lit', bytes(tpl[i:i + ln]).decode('utf-8')))
            i += ln
        else:
            if b & 0xC0 != 0xC0:
                raise Unsupported('fmt template byte %#x' % b)
            flags = 0x20 | (3 << 29)
            width = prec = idx = None
            if b & 1:
                flags = int.from_bytes(bytes(tpl[i:i + 4]), 'little')
                i += 4
            if b & 2:
                width = int.from_bytes(bytes(tpl[i:i + 2]), 'little')
                i += 2
            if b & 4:
                prec = int.from_bytes(bytes(tpl[i:i + 2]), 'little')
                i += 2
            if b & 8:
                idx = int.from_bytes(bytes(tpl[i:i + 2]), 'little')
                i += 2
            if b & 0x30:
                raise Unsupported('indirect width/precision in fmt template')
            parts.append(('arg', flags, width, prec, idx))
    return parts


@model(r'(core::fmt::rt::|core::fmt::|std::fmt::)?Argument::<.*>::new_(display|debug|lower_hex|upper_hex|binary|octal|lower_exp|upper_exp|pointer)(::<.*>)?',
       exact=('core::fmt::rt::Argument::new_display', 'core::fmt::rt::Argument::new_debug', 'core::fmt::rt::Argument::new_lower_hex',
              'core::fmt::rt::Argument::new_upper_hex'))
def m_fmt_argument(it, name, a):
    kind = re.search(r'new_(\w+)', name).group(1)
    m = re.search(r'new_\w+::<(.*)>$', name)
    ty = m.group(1) if m else ''
    return Adt('FmtArg', kind, [a[0], ty])


@model(r'(core::fmt::|std::fmt::)?Arguments::<.*>::from_str(_nonconst)?', exact=('Arguments::from_str', 'core::fmt::Arguments::from_str'))
def m_fmt_from_str(it, name, a):
    return Adt('FmtArgs', None, [[('lit', it.deref(a[0]))], []])


@model(r'(core::fmt::|std::fmt::)?Arguments::<.*>::new(::<.*>)?', exact=('Arguments::new', 'core::fmt::Arguments::new'))
def m_fmt_new(it, name, a):
    tpl = it.deref(a[0]).items
    args = it.deref(a[1]).items
    return Adt('FmtArgs', None, [decode_template(tpl), list(args)])


@model(exact=('format', 'std::fmt::format', 'alloc::fmt::format', 'std::fmt::format::format_inner', 'alloc::fmt::format::format_inner'))
def m_format(it, name, a):
    return render(it, a[0])


@model(r'(core::fmt::|std::fmt::)?Arguments::<.*>::as_str', r'(core::fmt::|std::fmt::)?Arguments::<.*>::as_statically_known_str')
def m_fmt_as_str(it, name, a):
    from .values import some, none
    fa = it.deref(a[0])
    parts, args = fa.f
    if not args and all(p[0] == 'lit' for p in parts):
        return some(''.join(p[1] for p in parts))
    return none()


def sym_decimal(it, v, signed):
    """decimal digits of a symbolic integer as a list of chars (forks on the number of digits)"""
    bits = v.size()
    if signed:
        if it.decide(v < 0):
            return [ord('-')] + sym_decimal(it, -v, False)
    w = z3.ZeroExt(64 - bits, v) if bits < 64 else v
    nd = 1
    p10 = 10
    while nd < 20 and not it.decide(z3.ULT(w, z3.BitVecVal(p10, 64))):
        nd += 1
        p10 *= 10
    out = []
    for k in range(nd - 1, -1, -1):
        d = z3.URem(z3.UDiv(w, z3.BitVecVal(10 ** k, 64)), z3.BitVecVal(10, 64))
        out.append(z3.simplify(z3.Extract(31, 0, d) + ord('0')))
    return out


def sym_hex(it, v, upper):
    bits = v.size()
    w = z3.ZeroExt(64 - bits, v) if bits < 64 else v
    nd = 1
    while nd < 16 and not it.decide(z3.ULT(w, z3.BitVecVal(16 ** nd, 64))):
        nd += 1
    out = []
    base = ord('A') if upper else ord('a')
    for k in range(nd - 1, -1, -1):
        d = z3.Extract(31, 0, z3.LShR(w, 4 * k) & 0xF)
        out.append(z3.simplify(z3.If(z3.ULT(d, 10), d + ord('0'), d - 10 + base)))
    return out


def render_arg(it, arg, flags, width, prec):
    kind = arg.variant
    ty = arg.f[1]
    v = it.deref(arg.f[0])
    while isinstance(v, Adt) and v.ty in ('Box',) and len(v.f) == 1:
        v = it.deref(v.f[0])
    is_num = False
    if isinstance(v, Opaque):
        v = v.term
    base_ty = ty.lstrip('&').strip()
    if isinstance(v, bool):
        chars = chars_of('true' if v else 'false')
    elif base_ty == 'char':
        if kind == 'debug':
            raise Unsupported('{:?} of char')
        chars = [v]
    elif isinstance(v, int):
        is_num = True
        if kind == 'lower_hex':
            chars = chars_of('%x' % (v & ((1 << 64) - 1) if v < 0 else v))
        elif kind == 'upper_hex':
            chars = chars_of('%X' % v)
        elif kind == 'binary':
            chars = chars_of(bin(v)[2:])
        elif kind == 'octal':
            chars = chars_of(oct(v)[2:])
        else:
            chars = chars_of(str(v))
    elif z3.is_expr(v) and z3.is_bv(v):
        is_num = True
        signed = base_ty.startswith('i')
        if kind == 'lower_hex':
            chars = sym_hex(it, v, False)
        elif kind == 'upper_hex':
            chars = sym_hex(it, v, True)
        elif kind in ('display', 'debug'):
            chars = sym_decimal(it, v, signed)
        else:
            raise Unsupported('symbolic {:%s}' % kind)
    elif isinstance(v, str):
        if kind == 'debug':
            chars = chars_of('"' + v.replace('\\', '\\\\').replace('"', '\\"').replace('\n', '\\n') + '"')
        else:
            chars = chars_of(v)
    elif isinstance(v, SStr):
        if kind == 'debug':
            raise Unsupported('{:?} of a symbolic string')
        chars = list(v.chars)
    elif isinstance(v, EnumC) and kind in ('display', 'debug'):
        name = variant_name(it, v)
        chars = chars_of(name)
    else:
        # crate types with derived Debug/Display or std error types: only ever used in messages
        chars = chars_of('<%s %s>' % (kind, base_ty or type(v).__name__))
    if prec is not None and not is_num and len(chars) > prec:
        chars = chars[:prec]
    fill = flags & 0x1FFFFF
    align = (flags >> 29) & 3
    zero = bool(flags & (1 << 24))
    plus = bool(flags & (1 << 21))
    alt = bool(flags & (1 << 23))
    if is_num and plus and chars and chars[0] != ord('-'):
        chars = [ord('+')] + chars
    if is_num and alt and kind in ('lower_hex', 'upper_hex', 'binary', 'octal'):
        chars = chars_of({'lower_hex': '0x', 'upper_hex': '0x', 'binary': '0b', 'octal': '0o'}[kind]) + chars
    if width is not None and len(chars) < width:
        pad = width - len(chars)
        if zero and is_num:
            sign = []
            if chars and chars[0] in (ord('-'), ord('+')):
                sign, chars = chars[:1], chars[1:]
            chars = sign + [ord('0')] * pad + chars
        else:
            if align == 3:
                align = 1 if is_num else 0
            if align == 0:
                chars = chars + [fill] * pad
            elif align == 1:
                chars = [fill] * pad + chars
            else:
                chars = [fill] * (pad // 2) + chars + [fill] * (pad - pad // 2)
    return chars


def variant_name(it, v):
    cands = it.p.types.get(v.ty) or []
    for td in cands:
        if td.kind == 'enum':
            d = v.d
            if isinstance(d, Sym):
                d = it.keys.canon(d.name)
            if not isinstance(d, int):
                raise Unsupported('name of a symbolic enum value')
            for n, dv in td.disc.items():
                if dv == d:
                    return n
    raise Unsupported('variant name of %r' % (v,))


def render(it, fa):
    fa = it.deref(fa)
    parts, args = fa.f
    out = []
    nxt = 0
    for p_ in parts:
        if p_[0] == 'lit':
            out.extend(chars_of(p_[1]))
            continue
        _, flags, width, prec, idx = p_
        if idx is None:
            idx = nxt
        nxt = idx + 1
        out.extend(render_arg(it, args[idx], flags, width, prec))
    return normalize(out)
