"""Native decision procedure for the key-symbol fragment.

Path conditions over key symbols are conjunctions of  s = c, s != c, s = s', s != s'
plus membership of every symbol in the finite domain of valid KeyCode discriminants.
Union-find with disequality sets is sound and complete for that fragment as long as the
number of symbols and constants involved stays far below the domain size (asserted).
Every completed path is additionally checked by z3 (to_z3), whose model is what gets
replayed natively.
"""
import z3


class KeyTheory:
    __slots__ = ('pin', 'ne', 'domain', 'trace', 'nsyms')

    def __init__(self, domain):
        self.pin = {}        # symbol name -> symbol name | int
        self.ne = {}         # representative (name) -> set of representatives / ints
        self.domain = domain
        self.trace = []      # (a, b, bool) literals in assertion order (names/ints)
        self.nsyms = 0

    def copy(self):
        k = KeyTheory(self.domain)
        k.pin = dict(self.pin)
        k.ne = {a: set(b) for a, b in self.ne.items()}
        k.trace = list(self.trace)
        k.nsyms = self.nsyms
        return k

    def canon(self, a):
        """a: name | int -> representative name | int"""
        pin = self.pin
        while isinstance(a, str):
            b = pin.get(a)
            if b is None:
                break
            a = b
        return a

    def ask(self, a, b):
        """True / False if implied by the store, None if both outcomes are consistent."""
        a = self.canon(a)
        b = self.canon(b)
        if isinstance(a, int) and isinstance(b, int):
            return a == b
        if a == b:
            return True
        if isinstance(a, int):
            a, b = b, a
        # a is a symbol name
        if isinstance(b, int) and b not in self.domain:
            return False
        s = self.ne.get(a)
        if s is not None and b in s:
            return False
        if s is not None and isinstance(b, int) and len(s) >= len(self.domain) - 1:
            # domain exhaustion: every other valid code is excluded, so a == b is implied
            if sum(1 for x in s if isinstance(x, int) and x in self.domain) >= len(self.domain) - 1:
                self.assert_lit(a, b, True)     # implied; pin it so that the value is visible to canon()
                return True
        if isinstance(b, str):
            s = self.ne.get(b)
            if s is not None and a in s:
                return False
        return None

    def assert_lit(self, a, b, d):
        """add a = b (d True) or a != b (d False); caller made sure it is consistent."""
        a0, b0 = a, b
        a = self.canon(a)
        b = self.canon(b)
        if isinstance(a, int):
            a, b = b, a
        assert isinstance(a, str), (a0, b0, d)
        if d:
            self.pin[a] = b
            mine = self.ne.pop(a, None)
            if isinstance(b, str):
                if mine:
                    self.ne.setdefault(b, set()).update(mine)
            for k, v in self.ne.items():
                if a in v:
                    v.discard(a)
                    v.add(b)
        else:
            self.ne.setdefault(a, set()).add(b)
            if isinstance(b, str):
                self.ne.setdefault(b, set()).add(a)
        self.trace.append((a, b, d))

    # ---- z3 export -------------------------------------------------------
    @staticmethod
    def domain_ranges(domain):
        vals = sorted(domain)
        rng = []
        s = p = None
        for v in vals:
            if s is None:
                s = p = v
            elif v == p + 1:
                p = v
            else:
                rng.append((s, p))
                s = p = v
        if s is not None:
            rng.append((s, p))
        return rng

    def to_z3(self, extra_syms=()):
        """z3 constraints equivalent to the store (Int-sorted key variables)."""
        names = set(extra_syms)
        for a, b, d in self.trace:
            if isinstance(a, str):
                names.add(a)
            if isinstance(b, str):
                names.add(b)
        rng = self.domain_ranges(self.domain)
        cons = []
        var = {n: z3.Int('key_' + n) for n in names}
        for n, v in var.items():
            cons.append(z3.Or([z3.And(v >= lo, v <= hi) for lo, hi in rng]))
        for a, b, d in self.trace:
            x = var[a] if isinstance(a, str) else z3.IntVal(a)
            y = var[b] if isinstance(b, str) else z3.IntVal(b)
            cons.append(x == y if d else x != y)
        return var, cons

    def solve(self, extra_syms=()):
        """(sat?, {name: int}) by z3."""
        var, cons = self.to_z3(extra_syms)
        s = z3.Solver()
        s.add(*cons)
        r = s.check()
        if r != z3.sat:
            return False, {}
        m = s.model()
        out = {}
        for n, v in var.items():
            val = m.eval(v, model_completion=True)
            out[n] = val.as_long()
        return True, out


class FastChecker:
    """one incremental z3 solver per process: key variables and their domain constraints are asserted once,
    each path condition is checked between push/pop"""

    def __init__(self, domain):
        self.domain = domain
        self.rng = KeyTheory.domain_ranges(domain)
        self.solver = z3.Solver()
        self.vars = {}
        self.lits = {}
        self.checks = 0

    def var(self, n):
        v = self.vars.get(n)
        if v is None:
            v = z3.Int('key_' + n)
            self.vars[n] = v
            self.solver.add(z3.Or([z3.And(v >= lo, v <= hi) for lo, hi in self.rng]))
        return v

    def lit(self, a, b, d):
        k = (a, b, d)
        t = self.lits.get(k)
        if t is None:
            x = self.var(a) if isinstance(a, str) else z3.IntVal(a)
            y = self.var(b) if isinstance(b, str) else z3.IntVal(b)
            t = (x == y) if d else (x != y)
            self.lits[k] = t
        return t

    def sat(self, trace):
        lits = [self.lit(a, b, d) for a, b, d in trace]
        self.solver.push()
        try:
            self.solver.add(*lits)
            self.checks += 1
            return self.solver.check() == z3.sat
        finally:
            self.solver.pop()
