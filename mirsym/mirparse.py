#!/usr/bin/env python3
"""Spike: parse rustc -Zunpretty=mir text into Python structures."""
import re, sys

SIMPLE_CONSTS = {}

class Func:
    __slots__ = ('name', 'params', 'ret', 'locals', 'blocks', 'raw_header', 'argc', 'debug')
    def __init__(self):
        self.locals = {}
        self.blocks = {}
        self.debug = {}

def split_top(s, sep=','):
    """split on sep at bracket depth 0 (handles <>, (), [], {} and string/char literals)."""
    out = []; depth = 0; cur = []; i = 0; n = len(s)
    while i < n:
        c = s[i]
        if c == '"' or (c == 'b' and i + 1 < n and s[i+1] == '"' and (i == 0 or not s[i-1].isalnum())):
            j = i + (2 if c == 'b' else 1)
            while j < n:
                if s[j] == '\\': j += 2; continue
                if s[j] == '"': break
                j += 1
            cur.append(s[i:j+1]); i = j + 1; continue
        if c == "'" and i + 2 < n:
            # char literal or lifetime
            m = re.match(r"'(\\.[^']*|[^'\\])'", s[i:])
            if m:
                cur.append(m.group(0)); i += len(m.group(0)); continue
        if c in '(<[{':
            # treat '<' as bracket only if it looks like generics (not followed by space/=)
            if c == '<' and (i + 1 < n and s[i+1] in ' ='):
                cur.append(c); i += 1; continue
            depth += 1
        elif c in ')>]}':
            if c == '>' and i > 0 and s[i-1] in '-=':
                cur.append(c); i += 1; continue
            depth -= 1
        if c == sep and depth == 0:
            out.append(''.join(cur).strip()); cur = []
        else:
            cur.append(c)
        i += 1
    t = ''.join(cur).strip()
    if t: out.append(t)
    return out

def find_matching(s, i):
    """s[i] is an opening bracket; return index of the matching close."""
    op = s[i]; cl = {'(': ')', '[': ']', '{': '}', '<': '>'}[op]
    depth = 0; n = len(s); j = i
    while j < n:
        c = s[j]
        if c == '"':
            j += 1
            while j < n and s[j] != '"':
                if s[j] == '\\': j += 1
                j += 1
        elif c == "'":
            m = re.match(r"'(\\.[^']*|[^'\\])'", s[j:])
            if m: j += len(m.group(0)); continue
        elif c in '([{' or (c == '<' and op == '<'): depth += 1
        elif c in ')]}' or (c == '>' and op == '<' and s[j-1] not in '-='):
            depth -= 1
            if depth == 0: return j
        j += 1
    raise ValueError('unbalanced: ' + s[i:i+80])

# ---------- places / operands ----------
def parse_place(s):
    """returns (local:int, [proj...]) ; proj: ('deref',), ('field', n), ('downcast', name), ('index', local), ('constindex', n, fromend)"""
    s = s.strip()
    m = re.fullmatch(r'_(\d+)', s)
    if m: return (int(m.group(1)), [])
    if s.startswith('(*') and find_matching(s, 0) == len(s) - 1:
        l, p = parse_place(s[2:-1]); return (l, p + [('deref',)])
    if s.startswith('(') and find_matching(s, 0) == len(s) - 1:
        inner = s[1:-1]
        # (P as Variant)  or (P.N: TYPE)
        m = re.match(r'^(.*) as ([A-Za-z_][A-Za-z_0-9]*)$', inner)
        if m and ':' not in m.group(2):
            try:
                l, p = parse_place(m.group(1)); return (l, p + [('downcast', m.group(2))])
            except Exception: pass
        # field: find last '.N: ' at depth 0
        depth = 0; k = None
        for i, c in enumerate(inner):
            if c in '([{<': depth += 1
            elif c in ')]}>': depth -= 1
            elif c == '.' and depth == 0:
                m2 = re.match(r'\.(\d+): ', inner[i:])
                if m2: k = (i, int(m2.group(1)), inner[i + len(m2.group(0)):]); break
        if k:
            l, p = parse_place(inner[:k[0]]); return (l, p + [('field', k[1], k[2])])
    # indexing P[_N] / P[N of M]
    if s.endswith(']'):
        i = len(s) - 1; depth = 0
        while i >= 0:
            if s[i] == ']': depth += 1
            elif s[i] == '[':
                depth -= 1
                if depth == 0: break
            i -= 1
        base, idx = s[:i], s[i+1:-1]
        l, p = parse_place(base)
        m = re.fullmatch(r'_(\d+)', idx)
        if m: return (l, p + [('index', int(m.group(1)))])
        m = re.fullmatch(r'(-?\d+) of (\d+)', idx)
        if m:
            n = int(m.group(1)); return (l, p + [('constindex', abs(n), idx.startswith('-'))])
        m = re.fullmatch(r'(\d+):(-?\d*)', idx)
        if m: return (l, p + [('subslice', int(m.group(1)), m.group(2))])
    raise ValueError('place? ' + s)

def parse_operand(s):
    s = s.strip()
    if s.startswith('copy '): return ('copy', parse_place(s[5:]))
    if s.startswith('move '): return ('move', parse_place(s[5:]))
    if s.startswith('const '): return ('const', s[6:].strip())
    if re.match(r'^[A-Za-z_<]', s): return ('const', 'fn:' + s)     # bare function item
    raise ValueError('operand? ' + s)

BINOPS = {'Eq','Ne','Lt','Le','Gt','Ge','Add','Sub','Mul','Div','Rem','BitAnd','BitOr','BitXor','Shl','Shr','Offset','Cmp',
          'AddWithOverflow','SubWithOverflow','MulWithOverflow','AddUnchecked','SubUnchecked','MulUnchecked','ShlUnchecked','ShrUnchecked'}
UNOPS = {'Not','Neg','PtrMetadata'}

def parse_rvalue(s):
    s = s.strip()
    if s.startswith(('copy ', 'move ', 'const ')):
        m = re.match(r'^(.*) as (.*) \((\w+(?:\([^)]*\))?)\)$', s)
        if m:
            try: return ('cast', parse_operand(m.group(1)), m.group(2), m.group(3))
            except Exception: pass
        return ('use', parse_operand(s))
    if s.startswith('no_retag '): return parse_rvalue(s[9:])
    if s.startswith('&raw '):
        return ('ref', 'raw', parse_place(re.sub(r'^&raw (const|mut) (\(fake\) )?', '', s)))
    if s.startswith('&mut '): return ('ref', 'mut', parse_place(s[5:]))
    if s.startswith('&fake '): return ('ref', 'fake', parse_place(re.sub(r'^&fake \w+ ', '', s)))
    if s.startswith('&'): return ('ref', 'shared', parse_place(s[1:]))
    m = re.match(r'^discriminant\((.*)\)$', s)
    if m: return ('discriminant', parse_place(m.group(1)))
    m = re.match(r'^Len\((.*)\)$', s)
    if m: return ('len', parse_place(m.group(1)))
    m = re.match(r'^([A-Z][A-Za-z]*)\((.*)\)$', s)
    if m and m.group(1) in BINOPS:
        a, b = split_top(m.group(2)); return ('binop', m.group(1), parse_operand(a), parse_operand(b))
    if m and m.group(1) in UNOPS:
        return ('unop', m.group(1), parse_operand(m.group(2)))
    if s.startswith('[') and s.endswith(']'):
        inner = s[1:-1]
        m2 = re.match(r'^(.*); (.*)$', inner)
        if m2 and len(split_top(inner)) == 1 and not inner.startswith(('copy', 'move')) is False and ';' in inner:
            try: return ('repeat', parse_operand(m2.group(1)), m2.group(2))
            except Exception: pass
        return ('array', [parse_operand(x) for x in split_top(inner)])
    if s.startswith('(') and s.endswith(')') and find_matching(s, 0) == len(s) - 1:
        inner = s[1:-1].strip()
        if inner == '': return ('tuple', [])
        parts = split_top(inner)
        return ('tuple', [parse_operand(x) for x in parts])
    # struct-like aggregate  Path { f: op, ... }
    m = re.match(r'^(.*?) \{(.*)\}$', s)
    if m and not s.startswith('{'):
        fields = []
        for part in split_top(m.group(2).strip()):
            fm = re.match(r'^([A-Za-z_0-9]+): (.*)$', part)
            fields.append((fm.group(1), parse_operand(fm.group(2))))
        return ('adt_named', m.group(1).strip(), fields)
    # closure aggregate {closure@...} { captures } handled above? starts with '{'
    if s.startswith('{closure@') or s.startswith('{coroutine@'):
        j = find_matching(s, 0)
        rest = s[j+1:].strip()
        fields = []
        if rest.startswith('{'):
            for part in split_top(rest[1:-1].strip()):
                fm = re.match(r'^([A-Za-z_0-9]+): (.*)$', part)
                fields.append((fm.group(1), parse_operand(fm.group(2))))
        return ('closure', s[:j+1], fields)
    # tuple-like variant Path(op, ...)  or unit Path
    if s.endswith(')'):
        i = len(s) - 1; depth = 0
        while i >= 0:
            if s[i] == ')': depth += 1
            elif s[i] == '(':
                depth -= 1
                if depth == 0: break
            i -= 1
        head, inner = s[:i], s[i+1:-1]
        return ('adt_tuple', head.strip(), [parse_operand(x) for x in split_top(inner)])
    return ('adt_unit', s)

# ---------- statements / terminators ----------
def parse_targets(s):
    # "[return: bb1, unwind continue]" or "[0: bb3, 1: bb2, otherwise: bb1]" or "[success: bb2, unwind: bb5]"
    d = {}
    for part in split_top(s.strip()[1:-1]):
        part = part.strip()
        m = re.match(r'^(\S+): bb(\d+)$', part)
        if m: d[m.group(1)] = int(m.group(2))
        else: d[part.split()[0]] = part
    return d

CHMASK = {"'('": "'\x01'", "')'": "'\x02'", "'['": "'\x03'", "']'": "'\x04'", "'{'": "'\x05'", "'}'": "'\x06'", "'<'": "'\x07'", "'>'": "'\x08'", "','": "'\x0b'", "'\"'": "'\x0c'"}
def parse_stmt(l):
    l = l.strip()
    if "'" in l:
        for k, v in CHMASK.items(): l = l.replace(k, v)
    if l.endswith(';'): l = l[:-1]
    if l in ('return', 'unreachable', 'resume', 'nop'): return (l,)
    m = re.match(r'^goto -> bb(\d+)$', l)
    if m: return ('goto', int(m.group(1)))
    if l.startswith(('StorageLive', 'StorageDead', 'Retag', 'FakeRead', 'PlaceMention', 'AscribeUserType', 'Coverage', 'ConstEvalCounter', 'Deinit', 'BackwardIncompatibleDropHint')):
        return ('nop',)
    m = re.match(r'^switchInt\((.*)\) -> (\[.*\])$', l)
    if m: return ('switch', parse_operand(m.group(1)), parse_targets(m.group(2)))
    m = re.match(r'^drop\((.*)\) -> (\[.*\])$', l)
    if m: return ('drop', parse_place(m.group(1)), parse_targets(m.group(2)))
    m = re.match(r'^assert\((.*)\) -> (\[.*\])$', l)
    if m:
        args = split_top(m.group(1))
        cond = args[0]; neg = False
        if cond.startswith('!'): neg = True; cond = cond[1:]
        return ('assert', neg, parse_operand(cond), args[1:], parse_targets(m.group(2)))
    m = re.match(r'^assume\((.*)\)$', l)
    if m: return ('assume', parse_operand(m.group(1)))
    m = re.match(r'^discriminant\((.*)\) = (\d+)$', l)
    if m: return ('setdiscr', parse_place(m.group(1)), int(m.group(2)))
    # call with or without destination
    m = re.match(r'^(.*?) = (.*)\) -> (\[.*\]|unwind .*|bb\d+)$', l)
    if m and ' = ' not in m.group(1):
        dest = parse_place(m.group(1)); callee, args = split_call(m.group(2) + ')')
        tg = parse_targets(m.group(3)) if m.group(3).startswith('[') else {}
        return ('call', dest, callee, args, tg)
    m = re.match(r'^(.*)\) -> (\[.*\]|unwind .*|bb\d+)$', l)
    if m and ' = ' not in l.split('(')[0]:
        callee, args = split_call(m.group(1) + ')')
        tg = parse_targets(m.group(2)) if m.group(2).startswith('[') else {}
        return ('call', None, callee, args, tg)
    m = re.match(r'^(.*?) = (.*)$', l)
    if m:
        return ('assign', parse_place(m.group(1)), parse_rvalue(m.group(2)))
    raise ValueError('stmt? ' + l)

def split_call(s):
    # s = "callee(args)" ; find the '(' matching the final ')'
    assert s.endswith(')'), s
    i = len(s) - 1; depth = 0
    while i >= 0:
        c = s[i]
        if c == ')': depth += 1
        elif c == '(':
            depth -= 1
            if depth == 0: break
        elif c == '"':
            i -= 1
            while i >= 0 and not (s[i] == '"' and s[i-1] != '\\'): i -= 1
        i -= 1
    callee = s[:i].strip(); inner = s[i+1:-1]
    if callee.startswith(('move ', 'copy ')):
        cal = ('indirect', parse_operand(callee))
    else:
        cal = ('direct', callee)
    return cal, [parse_operand(a) for a in split_top(inner)] if inner.strip() else []

def parse_file(path, want=None):
    funcs = {}; errors = []
    cur = None; blk = None
    hdr = re.compile(r'^fn (.*)$')
    with open(path) as f:
        lines = f.read().split('\n')
    i = 0; n = len(lines)
    while i < n:
        line = lines[i]
        if line.startswith('fn '):
            # header may be long but single-line
            m = re.match(r'^fn (.*?)\((.*)\) -> (.*) \{$', line)
            name = None
            if m:
                # name is up to the '(' that starts params: find via balanced scan
                h = line[3:]
                # find first '(' at depth 0 (not inside <>)
                depth = 0; k = 0
                while k < len(h):
                    c = h[k]
                    if c == '<': depth += 1
                    elif c == '>' and h[k-1] != '-': depth -= 1
                    elif c == '(' and depth == 0: break
                    k += 1
                name = h[:k]
                pe = find_matching(h, k)
                params = split_top(h[k+1:pe])
                fn = Func(); fn.name = name; fn.raw_header = line
                fn.params = []
                for p in params:
                    pm = re.match(r'^_(\d+): (.*)$', p)
                    if pm: fn.params.append((int(pm.group(1)), pm.group(2))); fn.locals[int(pm.group(1))] = pm.group(2)
                fn.ret = h[pe+1:].strip()[3:-2].strip()
                fn.locals[0] = fn.ret
                fn.argc = len(fn.params)
                cur = fn
                if want is None or want(name):
                    # keep first definition (ctor shims are duplicated); lazy_static initialisers share a name
                    if name in funcs and name.endswith('__static_ref_initialize'):
                        k = 1
                        while '%s#%d' % (name, k) in funcs: k += 1
                        funcs['%s#%d' % (name, k)] = fn
                    else:
                        funcs.setdefault(name, fn)
                else:
                    cur = None
            i += 1; continue
        if line.startswith('const ') and line.rstrip().endswith(';') and ' = const ' in line:
            m = re.match(r'^const (.*?): (.*?) = const (.*);$', line.rstrip())
            if m:
                SIMPLE_CONSTS[m.group(1)] = m.group(3)
            i += 1; continue
        if line.startswith('const ') and line.rstrip().endswith('= {'):
            m = re.match(r'^const (.*?): (.*) = \{$', line.rstrip())
            if m:
                fn = Func(); fn.name = 'const ' + m.group(1); fn.raw_header = line; fn.params = []; fn.ret = m.group(2); fn.locals[0] = fn.ret; fn.argc = 0
                cur = fn; funcs.setdefault(fn.name, fn)
            i += 1; continue
        if cur is not None:
            s = line.strip()
            if line.startswith('}'):
                cur = None; blk = None
            elif s.startswith('let '):
                m = re.match(r'^let (?:mut )?_(\d+): (.*);$', s)
                if m: cur.locals[int(m.group(1))] = m.group(2)
            elif re.match(r'^bb\d+( \(cleanup\))?: \{$', s):
                blk = []; cur.blocks[int(re.match(r'^bb(\d+)', s).group(1))] = blk
            elif s.startswith('debug '):
                m = re.match(r'^debug (\w+) => _(\d+);$', s)
                if m: cur.debug.setdefault(m.group(1), []).append(int(m.group(2)))
            elif s == '}' or s.startswith('scope ') or s == '':
                pass
            elif blk is not None:
                try:
                    blk.append(parse_stmt(s))
                except Exception as e:
                    errors.append((cur.name, s, repr(e)))
                    blk.append(('unparsed', s))
        i += 1
    return funcs, errors

if __name__ == '__main__':
    import time
    t = time.time()
    funcs, errors = parse_file(sys.argv[1])
    print('functions', len(funcs), 'errors', len(errors), 'time %.1fs' % (time.time() - t))
    import collections
    c = collections.Counter(e[0].split('::')[0] for e in errors)
    print(c.most_common(15))
    for e in errors[:25]: print(e[0][:50], '|', e[1][:140], '|', e[2][:80])
