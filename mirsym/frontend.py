"""Front end: regenerate the encoding from /repo's current working tree.

* MIR dump with the pre-installed nightly (cached by a hash over the sources and the engine).
* Native replay binary built from the same tree with the project's stable toolchain
  (modules mounted by #[path]/include!, no source hooks).
"""
import fcntl
import hashlib
import json
import os
import re
import shutil
import subprocess
import sys
import time

VERIF = os.path.dirname(os.path.dirname(os.path.abspath(__file__)))
REPO = os.environ.get('VERIF_REPO', '/repo')
BUILD = os.environ.get('VERIF_BUILD', os.path.join(VERIF, 'build'))

MIR_FLAGS = ['-Zunpretty=mir', '-C', 'debug-assertions=off', '-C', 'overflow-checks=on']

# modules whose private items the replay binary needs: mounted with include! plus a hook file
INCLUDE_MODULES = {
    'remapping_loop': 'hooks_remapping_loop.rs',
    'udev_utils': 'hooks_udev_utils.rs',
    'keyboard_listing': 'hooks_keyboard_listing.rs',
    'dev_input_rw': 'hooks_dev_input_rw.rs',
    'fancy_layout_interpreting': 'hooks_fancy_layout_interpreting.rs',
    'layout_parsing_formatting': 'hooks_layout_parsing_formatting.rs',
    'layout_loading': 'hooks_layout_loading.rs',
    'key_transforms': 'hooks_key_transforms.rs',
}


class BuildError(Exception):
    pass


def _env():
    e = dict(os.environ)
    e['CARGO_NET_OFFLINE'] = 'true'
    e.pop('RUSTFLAGS', None)
    return e


def tree_files(repo=None):
    repo = repo or REPO
    out = []
    for root, dirs, files in os.walk(os.path.join(repo, 'src')):
        dirs.sort()
        for f in sorted(files):
            out.append(os.path.join(root, f))
    for f in ('Cargo.toml', 'Cargo.lock'):
        p = os.path.join(repo, f)
        if os.path.exists(p):
            out.append(p)
    return out


def tree_hash(repo=None, extra=()):
    repo = repo or REPO
    h = hashlib.sha256()
    for p in tree_files(repo):
        h.update(os.path.relpath(p, repo).encode())
        h.update(b'\0')
        with open(p, 'rb') as f:
            h.update(f.read())
        h.update(b'\0')
    for e in extra:
        h.update(str(e).encode())
    return h.hexdigest()[:20]


def engine_hash():
    h = hashlib.sha256()
    d = os.path.join(VERIF, 'mirsym')
    for f in sorted(os.listdir(d)):
        if f.endswith('.py'):
            with open(os.path.join(d, f), 'rb') as fh:
                h.update(f.encode())
                h.update(fh.read())
    d = os.path.join(VERIF, 'replay')
    for root, dirs, files in os.walk(d):
        dirs.sort()
        for f in sorted(files):
            with open(os.path.join(root, f), 'rb') as fh:
                h.update(f.encode())
                h.update(fh.read())
    return h.hexdigest()[:12]


class _Lock:
    def __init__(self, name):
        os.makedirs(BUILD, exist_ok=True)
        self.path = os.path.join(BUILD, name + '.lock')

    def __enter__(self):
        self.f = open(self.path, 'w')
        fcntl.flock(self.f, fcntl.LOCK_EX)
        return self

    def __exit__(self, *a):
        fcntl.flock(self.f, fcntl.LOCK_UN)
        self.f.close()


def get_mir(repo=None, log=None):
    """returns (path of the MIR dump for the current tree, seconds spent, cached?)"""
    repo = repo or REPO
    th = tree_hash(repo)
    d = os.path.join(BUILD, 'mir')
    os.makedirs(d, exist_ok=True)
    out = os.path.join(d, th + '.mir')
    t0 = time.time()
    with _Lock('mir'):
        if os.path.exists(out) and os.path.getsize(out) > 0:
            return out, time.time() - t0, True
        tgt = os.path.join(BUILD, 'mirtarget')
        env = _env()
        env['CARGO_TARGET_DIR'] = tgt
        # make sure rustc re-runs even if only the flags/time changed
        cmd = ['cargo', '+nightly', 'rustc', '--offline', '--bin', 'totalmapper', '--'] + MIR_FLAGS
        # cargo skips the rustc invocation when it believes the unit is fresh; -Zunpretty then prints nothing.
        # Touching a fingerprint input would modify /repo, so instead remove our own fingerprint.
        fp = os.path.join(tgt, 'debug', '.fingerprint')
        if os.path.isdir(fp):
            for n in os.listdir(fp):
                if n.startswith('totalmapper-'):
                    shutil.rmtree(os.path.join(fp, n), ignore_errors=True)
        r = subprocess.run(cmd, cwd=repo, env=env, stdout=subprocess.PIPE, stderr=subprocess.PIPE)
        if r.returncode != 0 or len(r.stdout) < 1000:
            raise BuildError('MIR dump failed (rc=%d): %s' % (r.returncode, r.stderr.decode(errors='replace')[-2000:]))
        tmp = out + '.tmp%d' % os.getpid()
        with open(tmp, 'wb') as f:
            f.write(r.stdout)
        os.replace(tmp, out)
        # keep the cache small
        files = sorted((os.path.getmtime(os.path.join(d, f)), f) for f in os.listdir(d) if f.endswith('.mir'))
        for _, f in files[:-6]:
            try:
                os.remove(os.path.join(d, f))
            except OSError:
                pass
    return out, time.time() - t0, False


def _gen_replay_crate(repo, crate_dir, disabled=()):
    os.makedirs(os.path.join(crate_dir, 'src'), exist_ok=True)
    main_rs = open(os.path.join(repo, 'src', 'main.rs')).read()
    mods = re.findall(r'^\s*(?:pub\s+)?mod\s+(\w+)\s*;', main_rs, re.M)
    rdir = os.path.join(VERIF, 'replay')
    parts = [open(os.path.join(rdir, 'main_head.rs')).read()]
    for m in mods:
        src = os.path.join(repo, 'src', m + '.rs')
        if not os.path.exists(src):
            src = os.path.join(repo, 'src', m, 'mod.rs')
        hook = INCLUDE_MODULES.get(m)
        hookp = os.path.join(rdir, hook) if hook else None
        if hook and hook in disabled:
            hookp = os.path.join(rdir, 'stubs', hook)
        if hookp and os.path.exists(hookp):
            parts.append('mod %s {\n  include!(%s);\n  include!(%s);\n}\n' % (m, json.dumps(src), json.dumps(hookp)))
        else:
            parts.append('#[path = %s]\nmod %s;\n' % (json.dumps(src), m))
    parts.append('#[path = %s]\nmod replay_ext;\n' % json.dumps(os.path.join(rdir, 'replay_ext.rs')))
    parts.append('#[path = %s]\nmod replay_ext2;\n' % json.dumps(os.path.join(rdir, 'replay_ext2.rs')))
    parts.append(open(os.path.join(rdir, 'main_tail.rs')).read())
    new_main = ''.join(parts)
    mp = os.path.join(crate_dir, 'src', 'main.rs')
    if not os.path.exists(mp) or open(mp).read() != new_main:
        with open(mp, 'w') as f:
            f.write(new_main)
    cargo = open(os.path.join(repo, 'Cargo.toml')).read()
    cargo = re.sub(r'name\s*=\s*"totalmapper"', 'name = "tmreplay"', cargo, count=1)
    cargo = re.sub(r'\[dev-dependencies\].*?(?=\n\[|\Z)', '', cargo, flags=re.S)
    cargo += '\n[workspace]\n\n[profile.dev]\ndebug = 0\n'
    cp = os.path.join(crate_dir, 'Cargo.toml')
    if not os.path.exists(cp) or open(cp).read() != cargo:
        with open(cp, 'w') as f:
            f.write(cargo)
    lock = open(os.path.join(repo, 'Cargo.lock')).read().replace('name = "totalmapper"', 'name = "tmreplay"')
    lp = os.path.join(crate_dir, 'Cargo.lock')
    if not os.path.exists(lp) or open(lp).read() != lock:
        with open(lp, 'w') as f:
            f.write(lock)


def get_replay(repo=None, release=False):
    """build (if needed) and return the path of the native replay binary for the current tree"""
    repo = repo or REPO
    key = tree_hash(repo, extra=(engine_hash(), 'release' if release else 'dev'))
    bdir = os.path.join(BUILD, 'replaybin')
    os.makedirs(bdir, exist_ok=True)
    out = os.path.join(bdir, 'tmreplay-' + key)
    t0 = time.time()
    with _Lock('replay'):
        if os.path.exists(out):
            return out, time.time() - t0, True
        crate = os.path.join(BUILD, 'replaycrate')
        env = _env()
        env['CARGO_TARGET_DIR'] = os.path.join(BUILD, 'replaytarget')
        cmd = ['cargo', 'build', '--offline'] + (['--release'] if release else [])
        disabled = set()
        while True:
            _gen_replay_crate(repo, crate, disabled)
            r = subprocess.run(cmd, cwd=crate, env=env, stdout=subprocess.PIPE, stderr=subprocess.PIPE)
            if r.returncode == 0:
                break
            # a hook file may not compile against a tree that changed private signatures: fall back to its stub
            errtxt = r.stderr.decode(errors='replace')
            bad = [h for h in INCLUDE_MODULES.values() if h not in disabled and os.path.exists(os.path.join(VERIF, 'replay', 'stubs', h))
                   and ('replay/' + h) in errtxt]
            if not bad:
                raise BuildError('replay build failed: ' + errtxt[-3000:])
            disabled.update(bad)
            sys.stderr.write('[frontend] replay hooks %s do not compile against this tree; using stubs\n' % sorted(bad))
        binp = os.path.join(env['CARGO_TARGET_DIR'], 'release' if release else 'debug', 'tmreplay')
        tmp = out + '.tmp%d' % os.getpid()
        shutil.copy2(binp, tmp)
        os.replace(tmp, out)
        files = sorted((os.path.getmtime(os.path.join(bdir, f)), f) for f in os.listdir(bdir))
        for _, f in files[:-8]:
            try:
                os.remove(os.path.join(bdir, f))
            except OSError:
                pass
    return out, time.time() - t0, False


class Native:
    """a running replay process"""

    def __init__(self, repo=None, release=False):
        self.path, self.build_s, self.cached = get_replay(repo, release)
        self.p = subprocess.Popen([self.path], stdin=subprocess.PIPE, stdout=subprocess.PIPE, text=True, bufsize=1)
        self.calls = 0

    def ask(self, req):
        self.calls += 1
        self.p.stdin.write(json.dumps(req) + '\n')
        self.p.stdin.flush()
        line = self.p.stdout.readline()
        if not line:
            raise BuildError('replay process died on request %r' % (req,))
        return json.loads(line)

    def close(self):
        try:
            self.p.stdin.close()
            self.p.wait(timeout=5)
        except Exception:
            self.p.kill()


def load_program(repo=None):
    from .program import Program
    repo = repo or REPO
    mir, secs, cached = get_mir(repo)
    prog = Program(mir, os.path.join(repo, 'src'))
    prog.mir_seconds = secs
    prog.mir_cached = cached
    prog.mir_path = mir
    return prog


if __name__ == '__main__':
    t = time.time()
    print(get_mir())
    print(get_replay())
    n = Native()
    print(n.ask({'kind': 'ping'}))
    print('%.1fs' % (time.time() - t))
