"""One shared symbolic exploration of the real Mapper serving C01-C09 and C19 (DESIGN.md 6.3)."""
import json
import multiprocessing as mp
import os
import pickle
import random
import time

from . import mapper, corpus
from .checklib import log, Outcome, write_evidence
from .frontend import load_program, Native, tree_hash, engine_hash, BUILD, REPO, _Lock
from .monitors import MAPPER_PROPS, ConcreteQ
from .values import Opaque, Unsupported

PROPS = ('C01', 'C02', 'C03', 'C04', 'C05', 'C06', 'C07', 'C08', 'C09', 'C19')
NCPU = int(os.environ.get('VERIF_JOBS', '16'))

BUDGET = {
    'quick': dict(explore_s=540, pairs_s=75, pair_depth=8, pairN=2, validate=400),
    'thorough': dict(explore_s=2700, pairs_s=900, pair_depth=14, pairN=3, validate=3000),
}


def cache_path(tier, seed):
    d = os.path.join(BUILD, 'cache')
    os.makedirs(d, exist_ok=True)
    return os.path.join(d, 'mapper-%s-%s-%s-%d.json' % (tree_hash(), engine_hash(), tier, seed))


def kname(k):
    return mapper.INV.get(k, str(k)) if isinstance(k, int) else '$' + str(k)


def fmt_hist(hist, model=None):
    out = []
    for kind, k in hist:
        if kind == 'RA':
            out.append('release_all()')
        else:
            if model is not None and not isinstance(k, int):
                k = model.get(k, k)
            out.append('%s(%s)' % (kind, kname(k)))
    return out


def validate_sample(native, spec, sample):
    """differential validation of one explored path: concretise with z3, run natively, compare the
    last step's outputs with the symbolic outputs under the model. returns None | mismatch description"""
    root, hist, trace, outs = sample
    c = mapper.concretise(spec, hist, trace)
    if c is None:
        return 'path condition of an explored path is unsat under z3 (native theory unsound): %r' % (hist,)
    lay, ops, model = c
    r = native.ask({'kind': 'mapper', 'layout': lay, 'ops': ops})
    if 'ok' not in r:
        return 'native run failed: %r' % (r,)
    last = r['ok']['steps'][-1]
    evs, rep = outs

    def kc(k):
        return k if isinstance(k, int) else model.get(k, k)
    want = [['P' if kd == 'Pressed' else 'R', kc(k)] for kd, k in evs]
    if want != last['events']:
        return 'events differ: symbolic %r native %r on %r' % (want, last['events'], ops)
    nr = last['repeat']
    if rep[0] == 'Repeating':
        if not isinstance(nr, dict) or [kc(k) for k in rep[1]] != nr['keys']:
            return 'repeat differs: %r vs %r' % (rep, nr)
    elif nr != rep[0]:
        return 'repeat differs: %r vs %r' % (rep, nr)
    return None


def confirm_violation(native, spec, v, is_pair=False):
    """replay a symbolic violation natively and judge the real outputs with the same oracle.
    returns (confirmed?, case dict, description). The symbolic repeat timings of a template are not part of the key
    constraints a path carries; when the first replay (distinct ordinary values) does not reproduce, the replay is repeated
    with all timings equal and with zero timings - the violation may need exactly such a relation between them."""
    first = None
    ops_ = spec.opaques() if hasattr(spec, 'opaques') else []
    cands = [None]
    if ops_:
        cands.append({o.name: (130 if o.name.startswith('delay') else 30) for o in ops_})
        cands.append({o.name: 0 for o in ops_})
    for ov in cands:
        r = _confirm_once(native, spec, v, is_pair, ov)
        if r[0]:
            return r
        if first is None:
            first = r
    return first


def _confirm_once(native, spec, v, is_pair=False, opaque_vals=None):
    if is_pair:
        prop, what, ctx, h1, h2, trace, root = v
        hist = list(h1) + list(h2)
    else:
        prop, what, ctx, hist, trace, root = v
        h1, h2 = hist, []
    c = mapper.concretise(spec, hist, trace, opaque_vals)
    if c is None:
        return False, None, 'unsat path condition for %s' % (what,)
    lay, ops, model = c
    case = {'kind': 'mapper', 'layout': lay, 'ops': ops, 'property': prop, 'what': what, 'layout_name': spec.name,
            'history': fmt_hist(hist, model)}
    r = native.ask({'kind': 'mapper', 'layout': lay, 'ops': ops})
    if prop == 'PANIC':
        if 'panic' in r:
            case['native'] = r
            return True, case, 'mapper panicked natively: %s on %s' % (r['panic'], case['history'])
        return False, case, 'symbolic panic not reproduced natively'
    if 'ok' not in r:
        return False, case, 'native run failed: %r' % (r,)
    steps = r['ok']['steps']
    case['native_steps'] = steps
    if is_pair:
        n1 = len(h1)
        ops2 = ops[n1:]
        r2 = native.ask({'kind': 'mapper', 'layout': lay, 'ops': ops2})
        if 'ok' not in r2:
            return False, case, 'native fresh run failed'
        fresh = r2['ok']['steps']
        case['fresh_steps'] = fresh
        for i, (a, b) in enumerate(zip(steps[n1:], fresh)):
            if a != b:
                return True, case, ('after %s the mapper answers %s with %r but a fresh mapper answers %r'
                                    % (case['history'][:n1], case['history'][n1:n1 + i + 1], a, b))
        return False, case, 'stale/fresh difference not reproduced natively'
    found = mapper.judge_native(lay, ops, steps)
    for p, w, cx in found:
        if p == prop:
            return True, case, '%s: %s at %r; history %s; native outputs %s' % (
                p, w, cx, case['history'], [s['events'] for s in steps])
    return False, case, 'oracle does not fail on the native outputs (symbolic: %s)' % what


def role_of(prop, what, spec):
    """role key for known findings: the failing clause (not the concrete keys)"""
    return what.split(':')[0] if ':' in what[:3] else what


def run(tier, seed):
    t_start = time.time()
    B = BUDGET[tier]
    prog = load_program()
    mapper.init(prog)
    native = Native()
    specs = corpus.build(REPO, native, tier, seed)
    log('[mapper] %d layouts/sub-alphabets in the corpus; MIR %s (%.1fs%s)' % (
        len(specs), os.path.basename(prog.mir_path), prog.mir_seconds, ', cached' if prog.mir_cached else ''))
    roots = {}
    root_nodes = {}
    skipped = []
    root_panics = {}

    def try_root(sp):
        """-> ('ok', roots) | ('skip', why) | ('panic', RootPanic)"""
        try:
            return 'ok', mapper.make_root(sp, MAPPER_PROPS)
        except Unsupported as e:
            return 'skip', str(e)
        except mapper.RootPanic as e:
            return 'panic', e
    i = 0
    while i < len(specs):
        spec = specs[i]
        st, rs = try_root(spec)
        if st == 'ok' and len(rs) != 1 and '@' not in spec.name:
            # Mapper::for_layout branches on symbolic values of the template (a tree that looks at the repeat timings or
            # does arithmetic on key codes while building the mapper): the symbolic timings are replaced by a few
            # concrete pairs (ordinary, zero, negative, largest), and if it still branches, the key symbols by one instance
            variants = spec.with_numbers() if spec.opaques() else [spec]
            done = []
            for v in variants:
                st2, rs2 = try_root(v)
                if st2 == 'ok' and len(rs2) != 1 and v.sym_names():
                    v = v.instantiate(random.Random(seed * 31 + i))
                    st2, rs2 = try_root(v)
                done.append((v, st2, rs2))
            specs[i] = done[0][0]
            for v, _, _ in done[1:]:
                specs.append(v)
            pre = {id(v): (st2, rs2) for v, st2, rs2 in done}
            spec = specs[i]
            st, rs = pre[id(spec)]
            for v, st2, rs2 in done[1:]:
                _PRE[id(v)] = (st2, rs2)
        elif id(spec) in _PRE:
            st, rs = _PRE.pop(id(spec))
        if st == 'skip':
            skipped.append((spec.name, rs))
        elif st == 'panic':
            # an accepted layout on which Mapper::for_layout panics: a C14 matter, confirmed natively like every other panic
            root_panics[i] = (spec, ('PANIC', rs.what, 'None', [], rs.trace, i))
        elif len(rs) != 1:
            skipped.append((spec.name, 'for_layout forked on the template (%d roots)' % len(rs)))
        else:
            layout_v, node, it = rs[0]
            roots[i] = (spec, layout_v)
            root_nodes[i] = node
        i += 1
    opts = {'seed': seed, 'ra': True, 'sample_rate': 0.03 if tier == 'quick' else 0.01, 'pairN': B['pairN'],
            'z3_new_states': 0.25 if tier == 'quick' else 1.0}
    pool = mp.Pool(NCPU, initializer=mapper._w_init, initargs=(None, roots, opts))
    try:
        return _run_with_pool(pool, tier, seed, B, prog, native, specs, roots, root_nodes, skipped, t_start, root_panics)
    finally:
        pool.terminate()
        try:
            native.close()
        except Exception:
            pass


_PRE = {}
STOP_PROP = os.environ.get('VERIF_SEEDTEST_STOP') or None      # never set by a registered check (results are not cached then)


def _confirmed_early(native, spec, res, prop):
    want = 'PANIC' if prop == 'C14' else prop
    n = 0
    for v in res.viols:
        if v[0] != want:
            continue
        n += 1
        if n > 3:
            break
        try:
            okc, case, desc = confirm_violation(native, spec, v)
        except Exception:
            okc = False
        if okc:
            return True
    return False


def _run_with_pool(pool, tier, seed, B, prog, native, specs, roots, root_nodes, skipped, t_start, root_panics=None):
    results = {}
    deadline = time.time() + B['explore_s']
    order = sorted(roots, key=lambda i: (len(roots[i][0].maps) > 6, roots[i][0].N, len(roots[i][0].maps)))
    for n, i in enumerate(order):
        spec = roots[i][0]
        remaining = max(5.0, deadline - time.time())
        share = remaining / max(1, len(order) - n) * 2.5
        res = mapper.explore_spec(pool, spec, i, root_nodes[i], deadline=time.time() + min(remaining, max(share, 20.0)))
        results[i] = res
        log('[mapper] %-44s N=%d %s depth %2d states %6d paths %8d rest %2d viol %d %.1fs' % (
            spec.name, spec.N, 'FIXPOINT' if res.fixpoint else 'cut(%s)' % (res.cut or 'depth'), res.depth, res.states, res.paths,
            len(res.rest), len(res.viols), res.secs))
        if STOP_PROP and _confirmed_early(native, spec, res, STOP_PROP):
            # tools/seedtest.py only: a natively confirmed violation of the property under test ends the exploration
            log('[mapper] VERIF_SEEDTEST_STOP=%s: confirmed violation on %s, skipping the remaining %d layouts' % (STOP_PROP, spec.name, len(order) - n - 1))
            order = order[:n + 1]
            break
    t_explore = time.time() - t_start
    # ---- C06 product phase
    pair_out = {}
    pdeadline = time.time() + B['pairs_s']
    for i in order:
        spec = roots[i][0]
        res = results[i]
        nrest = sum(1 for b in res.rest.values() if b is not None)
        if nrest == 0:
            pair_out[i] = {'rest_states': 0, 'pair_states': 0, 'paths': 0, 'fixpoints': 0, 'viols': [], 'cut': 0, 'transitions': 0}
            continue
        if time.time() > pdeadline:
            pair_out[i] = {'rest_states': nrest, 'pair_states': 0, 'paths': 0, 'fixpoints': 0, 'viols': [], 'cut': nrest, 'transitions': 0, 'skipped': True}
            continue
        po = mapper.explore_pairs(pool, spec, i, root_nodes[i].state, res.rest, B['pair_depth'], deadline=pdeadline)
        pair_out[i] = po
        log('[mapper] C06 product %-34s stale rest states %d pair states %d fixpoints %d viol %d' % (
            spec.name, po['rest_states'], po['pair_states'], po['fixpoints'], len(po['viols'])))
    pool.close()
    pool.join()
    # ---- differential validation of sampled paths + z3 cross-check of their path conditions
    rng = random.Random(seed)
    all_samples = []
    for i in order:
        for s in results[i].samples:
            all_samples.append((i, s))
    rng.shuffle(all_samples)
    validated = 0
    mismatches = []
    t_val = time.time()
    for i, s in all_samples[:B['validate']]:
        m = validate_sample(native, roots[i][0], s)
        validated += 1
        if m is not None:
            mismatches.append('%s: %s' % (roots[i][0].name, m))
            if len(mismatches) > 5:
                break
    t_val = time.time() - t_val
    # ---- confirm violations natively
    per_prop = {p: {'violations': [], 'unconfirmed': []} for p in PROPS + ('PANIC',)}
    for i in order:
        spec = roots[i][0]
        seen_roles = {}
        for v in results[i].viols:
            prop = v[0]
            role = role_of(prop, v[1], spec)
            if seen_roles.get((prop, role), 0) >= 2:
                continue
            okc, case, desc = confirm_violation(native, spec, v)
            seen_roles[(prop, role)] = seen_roles.get((prop, role), 0) + 1
            tgt = per_prop.setdefault(prop, {'violations': [], 'unconfirmed': []})
            if okc:
                tgt['violations'].append({'role': role, 'desc': '[%s] %s' % (spec.name, desc), 'case': case})
            else:
                tgt['unconfirmed'].append('[%s] %s' % (spec.name, desc))
        for v in pair_out[i]['viols']:
            okc, case, desc = confirm_violation(native, spec, v, is_pair=True)
            tgt = per_prop['C06' if v[0] == 'C06' else 'PANIC']
            if okc:
                tgt['violations'].append({'role': v[1], 'desc': '[%s] %s' % (spec.name, desc), 'case': case})
            else:
                tgt['unconfirmed'].append('[%s] %s' % (spec.name, desc))
    for i, (spec, v) in (root_panics or {}).items():
        okc, case, desc = confirm_violation(native, spec, v)
        tgt = per_prop['PANIC']
        if okc:
            tgt['violations'].append({'role': 'for_layout', 'desc': '[%s] %s' % (spec.name, desc), 'case': case})
        else:
            tgt['unconfirmed'].append('[%s] %s' % (spec.name, desc))
    native.close()
    # ---- summary
    layouts = []
    for i in order:
        spec = roots[i][0]
        res = results[i]
        po = pair_out[i]
        layouts.append({
            'name': spec.name, 'note': spec.note, 'mappings': len(spec.maps), 'absorbing': any(m['absb'] for m in spec.maps),
            'N': spec.N, 'alphabet': None if spec.alphabet is None else [kname(k) for k in spec.alphabet],
            'symbolic_keys': len(spec.sym_names()), 'depth': res.depth, 'fixpoint': res.fixpoint, 'cut': res.cut,
            'states': res.states, 'transitions': res.transitions, 'paths': res.paths, 'mir_statements': res.mir_steps,
            'release_all_probes': res.ra_probes, 'z3_path_checks': res.z3_path_checks, 'key_forks': res.key_forks, 'rest_states': len(res.rest), 'secs': round(res.secs, 2),
            'c06_stale_rest_states': po['rest_states'], 'c06_pair_states': po['pair_states'], 'c06_pair_fixpoints': po['fixpoints'],
            'c06_pair_cut': po['cut'], 'c06_paths': po['paths'], 'c06_transitions': po.get('transitions', 0),
            'layout': spec.describe() if len(spec.maps) <= 12 else spec.describe()[:6] + ['... %d mappings' % len(spec.maps)],
            'error': res.error, 'subsumed': res.subsumed,
            'subsumption_selftest': {'subsumed_nodes_re_expanded': res.selftest_checked, 'successors_outside_the_fixpoint': res.selftest_failures},
        })
    sample_out = []
    for i, s in all_samples[:6]:
        spec = roots[i][0]
        c = mapper.concretise(spec, s[1], s[2])
        sample_out.append({'layout': spec.name, 'symbolic_history': fmt_hist(s[1]),
                           'path_condition_literals': len(s[2]),
                           'concretisation': fmt_hist(s[1], c[2]) if c else None,
                           'last_step_outputs': [[kd, kname(k)] for kd, k in s[3][0]], 'repeat': s[3][1][0]})
    out = {
        'tier': tier, 'seed': seed, 'tree': tree_hash(), 'engine': engine_hash(),
        'layouts': layouts, 'skipped': skipped, 'validated': validated, 'mismatches': mismatches,
        'per_prop': per_prop, 'samples': sample_out,
        'secs': {'explore': round(t_explore, 1), 'validate': round(t_val, 1), 'total': round(time.time() - t_start, 1)},
        'functions_encoded': ['Mapper::for_layout', 'Mapper::step', 'Mapper::release_all', 'make_hashed_layout', 'newly_press', 'newly_release',
                              'add_new_mapping', 'remove_mapping', 'release_action_mappings', 'release_all_action_keys',
                              'release_absorbed_keys', 'is_supported', 'fails_when_released', 'is_action_key', 'is_action_mapping',
                              'is_any_modifier', 'final_key', 'StepResult::empty/append', 'State::init', 'derived PartialEq/Clone of KeyCode/Mapping/Repeat/Event'],
        'mir': {'path': os.path.basename(prog.mir_path), 'seconds': round(prog.mir_seconds, 1), 'cached': prog.mir_cached},
    }
    return out


def get_results(tier, seed):
    t_lock = time.time()
    cp = cache_path(tier, seed)
    with _Lock('mapper-explore-%s' % tier):
        if time.time() - t_lock > 5:
            log('[mapper] waited %.0fs for another exploration holding the lock' % (time.time() - t_lock))
        if os.path.exists(cp) and os.environ.get('VERIF_NOCACHE') != '1' and not STOP_PROP:
            try:
                d = json.load(open(cp))
                d['cache_hit'] = True
                return d
            except Exception:
                pass
        t_run = time.time()
        d = run(tier, seed)
        log('[mapper] exploration finished in %.0fs' % (time.time() - t_run))
        d['cache_hit'] = False
        if STOP_PROP:
            return d        # partial exploration of a seed test: never cached
        tmp = cp + '.tmp%d' % os.getpid()
        with open(tmp, 'w') as f:
            json.dump(d, f, default=str)
        os.replace(tmp, cp)
        # keep the cache small
        cdir = os.path.dirname(cp)
        files = sorted((os.path.getmtime(os.path.join(cdir, f)), f) for f in os.listdir(cdir) if f.startswith('mapper-'))
        for _, f in files[:-12]:
            try:
                os.remove(os.path.join(cdir, f))
            except OSError:
                pass
        return d


CLAUSES = {
    'C01': 'at every explored configuration with no physical key held, no virtual key is held',
    'C02': 'a: each held virtual key is physically held or an output of a mapping whose triggers are all held; b: keys with a single-key mapping and in no output never appear; c: releases cause no presses; d (no absorbing): trigger keys of mappings in effect are held only if a mapping in effect outputs them',
    'C03': 'at every acted press (layouts without absorbing): rule R (last-listed satisfied mapping) fires: non-modifier outputs get a press event, modifier outputs held, Normal => all outputs held; otherwise pass-through as last event unless mentioned by a mapping in effect (then nothing); distinguished outputs of other mappings are not pressed',
    'C04': 'at the press of the fired mapping\'s final non-modifier output: every listed modifier down; every other modifier down is physically held and not a trigger, or output of a held modifier-remapping',
    'C05': 'a: foreign keys pressed exactly at their physical press, lifted only at their release or (non-modifier) by a no-repeat firing; b: empty layout is the identity; c: a release lifts only itself / outputs of mappings it triggers, never outputs of mappings remaining in effect; d: protected outputs of mappings staying in effect are not lifted',
    'C06': 'after release_all from any reachable configuration nothing is held; from every distinct stale rest state (all keys released, or after release_all) the real mapper and a fresh mapper return equal StepResults on every continuation (product exploration to pair fixpoint)',
    'C07': 'after a step firing a Disabled/Special mapping no non-modifier key is held, each output was pressed in the step, and no later release event (before the next physical press) emits a press',
    'C08': 'inside the window after an absorbing mapping fired (M held, not pressed again): a: no mapping requiring M fires on other keys; b: M not down when such a press types a non-modifier (unless output by a mapping whose triggers are held); c: same trigger again fires the same mapping; d: re-arming after release+press of M via rule R',
    'C09': 'Repeating{keys,delay,interval} is returned exactly when the fired mapping is Special and equals its fields (delay/interval symbolic); acted steps otherwise return Disabled; ignored steps return NoChange and no events',
    'C19': 'strict fold over all step outputs and over release_all batches from every reachable configuration: press only when up, release only when down',
}

APPLIES = {
    'C03': lambda l: not l['absorbing'],
    'C04': lambda l: not l['absorbing'],
    'C08': lambda l: l['absorbing'],
}


def check(prop, tier, seed):
    t0 = time.time()
    d = get_results(tier, seed)
    oc = Outcome(prop)
    pp = d['per_prop'].get(prop, {'violations': [], 'unconfirmed': []})
    for v in pp['violations']:
        oc.violations.append((v['role'], v['desc'], v['case']))
    # a natively confirmed panic of the mapper on a corpus layout is reported under every mapper property's run
    # only as inconclusive for that path (C14 owns panics); unconfirmed symbolic violations are engine mismatches
    for u in pp['unconfirmed']:
        oc.inconclusive.append('ENGINE-MISMATCH (symbolic violation not reproduced natively): ' + u)
    for m in d['mismatches']:
        oc.inconclusive.append('model/native disagreement: ' + m)
    for nm, why in d.get('skipped', [])[:3]:
        oc.inconclusive.append('layout %s could not be encoded: %s' % (nm, why))
    if not d['layouts']:
        oc.inconclusive.append('no layout was explored')
    for l in d['layouts']:
        if l.get('subsumption_selftest', {}).get('successors_outside_the_fixpoint'):
            oc.inconclusive.append('subsumption self-test failed on %s: a subsumed configuration has a successor outside the fixpoint' % l['name'])
            break
    for l in d['layouts']:
        if l.get('error'):
            oc.inconclusive.append('unsupported construct while exploring %s: %s' % (l['name'], l['error']))
            break
    loop_leg = None
    if prop == 'C19':
        # "everything written to the virtual keyboard": the same fold over what the per-device loop writes
        # (mapper steps and release-all batches in the order the loop sends them; shared loop exploration of C10-C12, C20)
        from . import loopcheck
        ld = loopcheck.get_results(tier, seed)
        lp = ld['per_prop'].get('C19', {'violations': [], 'unconfirmed': []})
        for v in lp['violations']:
            oc.violations.append((v['role'], v['desc'], v['case']))
        for u in lp['unconfirmed']:
            oc.inconclusive.append('ENGINE-MISMATCH (symbolic violation not reproduced natively): ' + u)
        for m in ld['mismatches']:
            oc.inconclusive.append('model/native disagreement (loop): ' + m)
        loop_leg = {
            'clause': 'every non-chord write of do_remapping_loop_one_device presses only keys that are up and releases only keys that are down, folding all writes of a run in order',
            'specs': [{'name': s['name'], 'paths': s['stats'].get('paths', 0), 'writes': s['stats'].get('sends', 0), 'E': s.get('E'), 'T': s.get('T'), 'B': s.get('B'), 'W': s.get('W')} for s in ld['specs']],
            'paths': sum(s['stats'].get('paths', 0) for s in ld['specs']),
            'writes': sum(s['stats'].get('sends', 0) for s in ld['specs']),
            'work_units_cut_by_time_budget': ld['timed_out_units'],
            'shared_exploration_cache_hit': ld.get('cache_hit', False), 'exploration_secs': ld['secs'],
        }
    applies = APPLIES.get(prop, lambda l: True)
    lays = [l for l in d['layouts'] if applies(l)]
    states = sum(l['states'] for l in lays)
    transitions = sum(l['transitions'] for l in lays)
    if prop == 'C06':
        states = sum(l['c06_pair_states'] for l in d['layouts']) + sum(l['rest_states'] for l in d['layouts'])
        transitions = sum(l['c06_transitions'] for l in d['layouts']) + sum(l['release_all_probes'] for l in d['layouts'])
    cov = {
        'states': max(states, 1), 'transitions': max(transitions, 1),
        'traces_validated_against_impl': d['validated'],
        'samples': d['samples'],
        'explanation': 'symbolic states are canonical forms (mapper State value + monitor state + constraints on live key symbols) of the real MIR of the Mapper; '
                       'fixpoint=true for a layout means no new canonical state at the last BFS level, i.e. all histories of any length with at most N keys held are covered',
        'clauses_checked': CLAUSES[prop],
        'layouts': [{k: l[k] for k in ('name', 'note', 'N', 'alphabet', 'symbolic_keys', 'depth', 'fixpoint', 'cut', 'states', 'transitions',
                                       'paths', 'secs', 'mappings', 'absorbing', 'c06_stale_rest_states', 'c06_pair_states',
                                       'c06_pair_fixpoints', 'c06_pair_cut', 'layout')} for l in lays],
        'layouts_total': len(lays), 'layouts_at_fixpoint': sum(1 for l in lays if l['fixpoint']),
        'paths': sum(l['paths'] for l in lays), 'mir_statements_executed': sum(l['mir_statements'] for l in lays),
        'solver': {'branch decisions on key symbols (native union-find/disequality procedure)': sum(l['key_forks'] for l in lays),
                   'z3 path-condition checks (paths reaching a configuration new to their worker: a 25% sample in the quick tier, all in the thorough tier)': sum(l.get('z3_path_checks', 0) for l in lays),
                   'z3 models replayed natively (sampled paths and every violation)': d['validated'],
                   'note': 'path conditions are re-decided by z3 over Int-sorted key variables ranging over the 484 valid codes; an unsat answer on an explored path is an engine error (exit 2)'},
        'functions_encoded': d['functions_encoded'],
        'bounds': {'max_keys_held_N': sorted(set(l['N'] for l in lays)), 'depth_cap': max([l['depth'] for l in lays] or [0]),
                   'event_keys': 'fully symbolic over all 484 key codes (sub-alphabet runs: restricted to the listed layout keys plus every foreign key)',
                   'outside': 'more than N keys held; layouts outside the corpus; cross-sub-alphabet histories on the large built-in layouts'},
        'subsumption_selftest': {'subsumed_nodes_re_expanded': sum(l.get('subsumption_selftest', {}).get('subsumed_nodes_re_expanded', 0) for l in lays),
                                 'successors_outside_the_fixpoint': sum(l.get('subsumption_selftest', {}).get('successors_outside_the_fixpoint', 0) for l in lays)},
        'skipped_layouts': d['skipped'], 'shared_exploration_cache_hit': d.get('cache_hit', False), 'exploration_secs': d['secs'],
        'mir': d['mir'],
    }
    if loop_leg is not None:
        cov['loop_leg'] = loop_leg
    assumptions = [
        'std models used (Vec, slice iterators, HashMap as association list, Option/Result, Box/vec! lowering) follow the std documentation; validated differentially against the native build on sampled paths every run',
        'key symbols range over the valid KeyCode discriminants; equality-only reasoning on them is complete because fewer than 40 symbols/constants meet a 484-value domain',
        'MIR from the pinned nightly with overflow checks on; replays run on the stable dev build',
    ]
    rc = oc.report()
    write_evidence(prop, tier, seed, cov, assumptions, time.time() - t0 + (0 if d.get('cache_hit') else 0), len(oc.violations))
    return rc
