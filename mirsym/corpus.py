"""Layout corpus for the mapper / loop properties (DESIGN.md 6.2)."""
import os
import random
import re

from . import mapper
from .mapper import Spec
from .values import Opaque

NORMAL = ('Normal', None, None, None)
DISABLED = ('Disabled', None, None, None)


def K(*names):
    return [mapper.KC[n] if not n.startswith('$') else n[1:] for n in names]


# --------------------------------------------------------------------------- Lt: unit-test layouts
def test_layouts(repo):
    """layouts of the repository's mapper / loop unit tests, parsed out of the test sources"""
    out = []
    seen = set()
    for fn in ('key_transforms.rs', 'remapping_loop.rs'):
        p = os.path.join(repo, 'src', fn)
        try:
            src = open(p).read()
        except OSError:
            continue
        for lm in re.finditer(r'Layout\s*\{\s*mappings:\s*vec!\[(.*?)\]\s*\}\s*;', src, re.S):
            maps = []
            ok = True
            for mm in re.finditer(r'Mapping\s*\{(.*?)\.\.Default::default\(\)\s*\}', lm.group(1), re.S):
                body = mm.group(1)

                def keys_of(field):
                    m = re.search(r'\b%s:\s*vec!\[([^\]]*)\]' % field, body)
                    if not m:
                        return []
                    return [x.strip() for x in m.group(1).split(',') if x.strip()]
                try:
                    frm = K(*keys_of('from'))
                    to = K(*keys_of('to'))
                    absb = K(*keys_of('absorbing'))
                    rep = NORMAL
                    if re.search(r'repeat:\s*Repeat::Disabled', body):
                        rep = DISABLED
                    sm = re.search(r'repeat:\s*Repeat::Special\s*\{\s*keys:\s*vec!\[([^\]]*)\]\s*,\s*delay_ms:\s*(-?\d+)\s*,\s*interval_ms:\s*(-?\d+)', body)
                    if sm:
                        rep = ('Special', K(*[x.strip() for x in sm.group(1).split(',') if x.strip()]), int(sm.group(2)), int(sm.group(3)))
                except KeyError:
                    ok = False
                    break
                maps.append(dict(frm=frm, to=to, rep=rep, absb=absb))
            if ok and maps:
                key = repr(maps)
                if key not in seen:
                    seen.add(key)
                    out.append(maps)
    return out


# --------------------------------------------------------------------------- Lb / Lr: loaded by the real loader
def native_layout(lay):
    maps = []
    for m in lay:
        r = m['repeat']
        rep = ('Special', list(r['keys']), r['delay_ms'], r['interval_ms']) if isinstance(r, dict) else (r, None, None, None)
        maps.append(dict(frm=list(m['from']), to=list(m['to']), rep=rep, absb=list(m['absorbing'])))
    return maps


def builtin_layouts(native):
    out = {}
    r = native.ask({'kind': 'builtin_layouts'})
    for name, text in sorted(r['ok'].items()):
        l = native.ask({'kind': 'load_text', 'text': text})
        if 'ok' in l and 'layout' in l['ok']:
            out[name] = native_layout(l['ok']['layout'])
    return out


def readme_layouts(repo, native):
    out = []
    try:
        txt = open(os.path.join(repo, 'README.md')).read()
    except OSError:
        return out
    for m in re.finditer(r'```(?:json)?\s*\n(.*?)```', txt, re.S):
        body = m.group(1)
        if '"mappings"' not in body:
            continue
        l = native.ask({'kind': 'load_text', 'text': body})
        if 'ok' in l and 'layout' in l['ok'] and l['ok']['layout']:
            out.append(native_layout(l['ok']['layout']))
    return out


# --------------------------------------------------------------------------- Ls: symbolic templates
def named_templates():
    """situations the property texts call out; $aN are distinct symbolic non-modifier keys"""
    sp = lambda keys, n: ('Special', K(*keys), Opaque('delay%d' % n), Opaque('interval%d' % n))
    T = {}
    T['chord+bare-modifier'] = [dict(frm=K('$a0'), to=[]), dict(frm=K('$a0', '$a1'), to=K('$a2', '$a3')), dict(frm=K('$a0', '$a4'), to=K('$a3'))]
    T['chord+bare-modifier/shift-out'] = [dict(frm=K('$a0'), to=[]), dict(frm=K('$a0', '$a1'), to=K('LEFTSHIFT', '$a3')), dict(frm=K('$a0', '$a4'), to=K('$a3'))]
    T['shared-output'] = [dict(frm=K('$a0'), to=K('$a2')), dict(frm=K('$a1'), to=K('$a2')), dict(frm=K('$a0', '$a3'), to=K('LEFTCTRL', '$a2'))]
    T['modifier-remapping'] = [dict(frm=K('$a0'), to=K('LEFTMETA')), dict(frm=K('$a0', '$a1'), to=K('LEFTMETA', '$a2')), dict(frm=K('$a1'), to=K('$a3'))]
    T['precedence'] = [dict(frm=K('$a0'), to=K('$a1')), dict(frm=K('LEFTSHIFT', '$a0'), to=K('$a2')),
                       dict(frm=K('LEFTSHIFT', 'LEFTCTRL', '$a0'), to=K('$a3')), dict(frm=K('LEFTCTRL', '$a0'), to=K('$a4'))]
    T['absorbing+plain-same-final'] = [dict(frm=K('$a0'), to=K('$a1')), dict(frm=K('RIGHTSHIFT', '$a0'), to=K('LEFTSHIFT', '$a1'), absb=K('RIGHTSHIFT'))]
    T['two-absorbing'] = [dict(frm=K('LEFTSHIFT', '$a0'), to=K('LEFTSHIFT', '$a1'), absb=K('LEFTSHIFT')),
                          dict(frm=K('LEFTSHIFT', '$a2'), to=K('LEFTSHIFT', '$a3'), absb=K('LEFTSHIFT')), dict(frm=K('$a0'), to=K('$a4'))]
    T['absorbing-nonmod-M'] = [dict(frm=K('$a0'), to=[]), dict(frm=K('$a0', '$a1'), to=K('$a2'), absb=K('$a0'), rep=DISABLED), dict(frm=K('$a0', '$a3'), to=K('$a4'))]
    T['absorbing-identity'] = [dict(frm=K('LEFTSHIFT', '$a0'), to=K('LEFTSHIFT', '$a0'), absb=K('LEFTSHIFT')),
                               dict(frm=K('LEFTSHIFT', '$a1'), to=K('LEFTSHIFT', '$a1'), absb=K('LEFTSHIFT'))]
    T['norepeat+normal'] = [dict(frm=K('$a0'), to=K('$a0'), rep=DISABLED), dict(frm=K('$a1'), to=K('$a1')), dict(frm=K('LEFTSHIFT', '$a0'), to=K('$a2'))]
    T['norepeat-with-modifier-out'] = [dict(frm=K('$a0'), to=K('$a1'), rep=DISABLED), dict(frm=K('$a2'), to=K('$a3')),
                                       dict(frm=K('LEFTSHIFT', '$a2'), to=K('LEFTSHIFT', '$a4'), rep=DISABLED)]
    T['special-overlapping-output'] = [dict(frm=K('$a0'), to=K('$a1')), dict(frm=K('$a2'), to=K('$a3'), rep=sp(['$a3'], 0))]
    T['special-chord'] = [dict(frm=K('$a0'), to=K('$a0'), rep=DISABLED), dict(frm=K('$a1'), to=K('$a1'), rep=sp(['LEFTCTRL', '$a2'], 0))]
    T['special-two'] = [dict(frm=K('$a0'), to=K('$a1'), rep=sp(['$a2'], 0)), dict(frm=K('LEFTALT', '$a0'), to=K('$a3'), rep=sp([], 1)), dict(frm=K('$a4'), to=K('$a4'))]
    T['precedence-reversed'] = [dict(frm=K('LEFTSHIFT', '$a0'), to=K('$a2')), dict(frm=K('$a0'), to=K('$a1')),
                                dict(frm=K('$a3', '$a4'), to=K('$a2')), dict(frm=K('$a4'), to=K('LEFTCTRL', '$a1'))]
    T['special-on-modifier-and-empty'] = [dict(frm=K('RIGHTALT'), to=K('RIGHTALT'), rep=sp(['$a0'], 0)), dict(frm=K('$a1'), to=[], rep=sp(['$a2'], 1)),
                                          dict(frm=K('$a1', '$a3'), to=K('$a4'))]
    T['norepeat-on-modifier-output'] = [dict(frm=K('$a0'), to=K('LEFTCTRL'), rep=DISABLED), dict(frm=K('$a1'), to=K('LEFTALT'), rep=sp(['$a2'], 0)),
                                        dict(frm=K('$a3'), to=K('$a4'))]
    T['absorbing-output-is-trigger+norepeat'] = [dict(frm=K('LEFTSHIFT', '$a0'), to=K('$a0'), absb=K('LEFTSHIFT')), dict(frm=K('$a1'), to=K('$a2'), rep=DISABLED),
                                                 dict(frm=K('$a3'), to=K('$a4'), rep=sp(['$a4'], 0))]
    T['absorbing-layer-with-output'] = [dict(frm=K('$a0'), to=K('LEFTCTRL')), dict(frm=K('$a0', '$a1'), to=K('$a2'), absb=K('$a0')), dict(frm=K('$a3'), to=K('$a2'))]
    T['two-absorbing-same-trigger'] = [dict(frm=K('LEFTSHIFT', '$a0'), to=K('$a1'), absb=K('LEFTSHIFT')), dict(frm=K('RIGHTSHIFT', '$a0'), to=K('$a2'), absb=K('RIGHTSHIFT')),
                                       dict(frm=K('LEFTSHIFT', '$a3'), to=K('$a4'))]
    T['absorbing-two-modifiers'] = [dict(frm=K('LEFTCTRL', 'LEFTSHIFT', '$a0'), to=K('$a1'), absb=K('LEFTCTRL', 'LEFTSHIFT')), dict(frm=K('LEFTSHIFT', '$a2'), to=K('$a3')),
                                    dict(frm=K('LEFTCTRL', '$a2'), to=K('$a4'))]
    T['absorbing-output-remapped'] = [dict(frm=K('RIGHTSHIFT', '$a0'), to=K('$a1'), absb=K('RIGHTSHIFT')), dict(frm=K('$a1'), to=K('$a2'))]
    T['absorbing-two-with-remap'] = [dict(frm=K('RIGHTCTRL'), to=K('LEFTSHIFT')), dict(frm=K('LEFTSHIFT', 'RIGHTCTRL', '$a0'), to=K('$a1'), absb=K('LEFTSHIFT', 'RIGHTCTRL'))]
    T['absorbing-then-layer-key'] = [dict(frm=K('LEFTSHIFT', '$a0'), to=K('$a1'), absb=K('LEFTSHIFT')), dict(frm=K('$a2'), to=K('RIGHTALT')),
                                     dict(frm=K('LEFTSHIFT', '$a2'), to=K('$a3'))]
    T['swap'] = [dict(frm=K('$a0'), to=K('$a1')), dict(frm=K('$a1'), to=K('$a0'))]
    T['hyper'] = [dict(frm=K('$a0'), to=K('LEFTCTRL', 'LEFTALT')), dict(frm=K('$a0', '$a1'), to=K('LEFTCTRL', 'LEFTALT', '$a2')), dict(frm=K('$a3'), to=K('LEFTSHIFT', '$a4'))]
    T['empty-layout'] = []
    return T


def random_template(rng, nmaps):
    """G(M,F,T): random small layout over symbolic keys $a0..$a4 and a few concrete modifiers"""
    mods_pool = rng.sample(['LEFTSHIFT', 'RIGHTSHIFT', 'LEFTCTRL', 'RIGHTCTRL', 'LEFTALT', 'RIGHTALT', 'LEFTMETA', 'RIGHTMETA'], 2)
    syms = ['$a%d' % i for i in range(5)]
    maps = []
    nsp = 0
    for _ in range(nmaps):
        for _try in range(50):
            final = rng.choice(syms[:3])
            nf = rng.choice([1, 2, 2, 3])
            pre = []
            while len(pre) < nf - 1:
                c = rng.choice(mods_pool + syms[2:])
                if c != final and c not in pre:
                    pre.append(c)
            frm = pre + [final]
            nt = rng.choice([0, 1, 1, 2, 2])
            to = []
            while len(to) < nt:
                if len(to) < nt - 1:
                    c = rng.choice(mods_pool + syms)
                else:
                    c = rng.choice(syms + syms + mods_pool[:1])
                if c not in to:
                    to.append(c)
            r = rng.random()
            if r < 0.5:
                rep = NORMAL
            elif r < 0.75:
                rep = DISABLED
            else:
                nk = rng.choice([0, 1, 1, 2])
                keys = []
                while len(keys) < nk:
                    c = rng.choice(syms + mods_pool)
                    if c not in keys:
                        keys.append(c)
                rep = ('Special', K(*keys), Opaque('delay%d' % nsp), Opaque('interval%d' % nsp))
                nsp += 1
            absb = []
            if rng.random() < 0.3:
                absb = [c for c in pre if rng.random() < 0.8]
            cand = dict(frm=K(*frm), to=K(*to), rep=rep, absb=K(*absb))
            if not any(m['frm'] == cand['frm'] for m in maps):
                maps.append(cand)
                break
    return maps


def closed_template(rng):
    """four keys held together: a random layout of 2-4 interacting mappings whose event keys are restricted to its own
    trigger keys (plus, sometimes, one output key pressed physically); rollover of four keys is where two and three
    mappings are in effect at once (DESIGN.md 11.5d: seeds that needed four keys)"""
    mods_pool = rng.sample(['LEFTSHIFT', 'RIGHTSHIFT', 'LEFTCTRL', 'RIGHTCTRL', 'LEFTALT', 'RIGHTALT', 'LEFTMETA', 'RIGHTMETA'], 2)
    syms = ['$a%d' % i for i in range(7)]
    layer = rng.choice(mods_pool + syms[3:4] * 2)            # a shared first trigger key: modifier or layer key
    nmaps = rng.choice([2, 3, 3, 4])
    maps = []
    nsp = 0
    for _ in range(nmaps):
        for _try in range(50):
            shape = rng.random()
            if shape < 0.15:
                frm = [layer]                               # bare layer / modifier mapping
            elif shape < 0.75:
                other = rng.choice(mods_pool) if rng.random() < 0.3 else layer
                frm = [other, rng.choice(syms[:3])]
            elif shape < 0.9:
                frm = [rng.choice(syms[:3])]
            else:
                a, b = rng.sample(mods_pool + [layer], 2) if layer not in mods_pool else mods_pool
                frm = [a, b, rng.choice(syms[:3])]
            if len(set(frm)) != len(frm):
                continue
            nt = rng.choice([0, 1, 1, 2, 2])
            to = []
            while len(to) < nt:
                if len(to) < nt - 1:
                    c = rng.choice(mods_pool * 2 + syms[:3] + [layer])
                else:
                    c = rng.choice(syms[4:7] * 2 + syms[:3] + mods_pool[:1])
                if c not in to:
                    to.append(c)
            r = rng.random()
            if r < 0.55:
                rep = NORMAL
            elif r < 0.8:
                rep = DISABLED
            else:
                keys = rng.sample(syms[4:7] + mods_pool, rng.choice([0, 1, 2]))
                rep = ('Special', K(*keys), Opaque('delay%d' % nsp), Opaque('interval%d' % nsp))
                nsp += 1
            absb = []
            if len(frm) > 1 and rng.random() < 0.35:
                absb = [c for c in frm[:-1] if rng.random() < 0.8]
            cand = dict(frm=K(*frm), to=K(*to), rep=rep, absb=K(*absb))
            if not any(m['frm'] == cand['frm'] for m in maps):
                maps.append(cand)
                break
    return _close(rng, maps, syms)


def singles_template(rng):
    """rollover of single-key mappings: 3-4 mappings, most of them on one key each, whose outputs share a modifier or a key
    ([MOD,k], [k], [MOD], []), mixed repeat modes; event keys restricted to the triggers and one or two output keys"""
    mods_pool = rng.sample(['LEFTSHIFT', 'RIGHTSHIFT', 'LEFTCTRL', 'RIGHTCTRL', 'LEFTALT', 'RIGHTALT', 'LEFTMETA', 'RIGHTMETA'], 2)
    syms = ['$a%d' % i for i in range(8)]
    nmaps = rng.choice([3, 3, 4])
    trig = syms[:4]
    outk = syms[4:7]
    maps = []
    nsp = 0
    for i in range(nmaps):
        for _try in range(50):
            r = rng.random()
            if r < 0.8:
                frm = [trig[i]]
            elif r < 0.9:
                frm = [rng.choice(mods_pool), trig[i]]
            else:
                j = rng.choice([x for x in range(4) if x != i])
                frm = [trig[j], trig[i]]
            sh = rng.random()
            k = rng.choice(outk + [rng.choice(trig)])
            if sh < 0.4:
                to = [mods_pool[0] if rng.random() < 0.75 else mods_pool[1], k]
            elif sh < 0.75:
                to = [k]
            elif sh < 0.85:
                to = [rng.choice(mods_pool)]
            elif sh < 0.92:
                to = [rng.choice(outk), k] if k not in outk[:1] else [k]
            else:
                to = []
            if len(set(to)) != len(to):
                continue
            r = rng.random()
            if r < 0.6:
                rep = NORMAL
            elif r < 0.85:
                rep = DISABLED
            else:
                rep = ('Special', K(*rng.sample(outk + mods_pool, rng.choice([1, 1, 2]))), Opaque('delay%d' % nsp), Opaque('interval%d' % nsp))
                nsp += 1
            absb = [c for c in frm[:-1] if rng.random() < 0.25]
            cand = dict(frm=K(*frm), to=K(*to), rep=rep, absb=K(*absb))
            if not any(m['frm'] == cand['frm'] for m in maps):
                maps.append(cand)
                break
    return _close(rng, maps, syms, extra_out=True)


def _close(rng, maps, syms, extra_out=False):
    alpha = []
    for m in maps:
        for k in m['frm']:
            if k not in alpha:
                alpha.append(k)
    outs = [k for m in maps for k in m['to'] if k not in alpha]
    if extra_out and outs and len(alpha) < 5:
        alpha.append(rng.choice(outs))
        outs = [k for k in outs if k not in alpha]
    if outs and rng.random() < 0.5 and len(alpha) < 6:
        alpha.append(rng.choice(outs))
    # at least four event keys, otherwise N=4 is never reached: further output keys, then concrete keys foreign to the layout
    # (never a symbol that is not in the layout: it would be an undeclared, unconstrained name shared by all paths)
    for k in outs + K('F13', 'F14', 'F15', 'F16'):
        if len(alpha) >= 4:
            break
        if k not in alpha:
            alpha.append(k)
    return maps, alpha[:6]


# --------------------------------------------------------------------------- sub-alphabets for big layouts
def distinct_keys(maps):
    out = []
    for m in maps:
        for k in m['frm'] + m['to'] + m['absb'] + list(m['rep'][1] or ()):
            if k not in out:
                out.append(k)
    return out


def mapping_class(m, maps, mods):
    frm_shape = tuple('M' if k in mods else 'k' for k in m['frm'])
    to_shape = tuple('M' if k in mods else 'k' for k in m['to'])
    same_final = sum(1 for m2 in maps if m2['frm'][-1] == m['frm'][-1])
    ident = any(k in m['frm'] for k in m['to'])
    return (frm_shape, to_shape, m['rep'][0], len(m['rep'][1] or ()), bool(m['absb']), min(same_final, 3), ident)


def sub_alphabets(maps, mods, limit, rng, max_keys=6):
    """choose sub-alphabets of <= max_keys layout keys so that every class of mapping and every class of
    interacting mapping pair (shared trigger key / shared final key / shared output) has a representative"""
    classes = {}
    for i, m in enumerate(maps):
        classes.setdefault(mapping_class(m, maps, mods), []).append(i)
    alphas = []
    covered = set()

    def add(keys, why):
        keys = list(dict.fromkeys(keys))[:max_keys]
        fk = frozenset(keys)
        if fk not in covered:
            covered.add(fk)
            alphas.append((keys, why))
    reps = {c: idxs[rng.randrange(len(idxs))] for c, idxs in classes.items()}
    # interacting pairs of classes
    pair_done = set()
    order = list(range(len(maps)))
    rng.shuffle(order)
    for i in order:
        mi = maps[i]
        for j in order:
            if j <= i:
                continue
            mj = maps[j]
            rel = []
            if mi['frm'][-1] == mj['frm'][-1]:
                rel.append('same-final')
            if set(mi['frm'][:-1]) & set(mj['frm'][:-1]):
                rel.append('shared-prefix')
            if set(mi['to']) & set(mj['to']):
                rel.append('shared-output')
            if set(mi['to']) & set(mj['frm']) or set(mj['to']) & set(mi['frm']):
                rel.append('out-is-trigger')
            if not rel:
                continue
            key = (mapping_class(mi, maps, mods), mapping_class(mj, maps, mods), tuple(rel))
            if key in pair_done:
                continue
            pair_done.add(key)
            add(mi['frm'] + mj['frm'] + [k for k in mi['to'] + mj['to'] if k not in mods][:2], 'pair %d,%d %s' % (i, j, '+'.join(rel)))
    for c, i in reps.items():
        add(maps[i]['frm'] + [k for k in maps[i]['to'] if k not in mods][:2], 'class representative %d' % i)
    rng.shuffle(alphas)
    # prefer pair alphabets, keep within the limit
    alphas.sort(key=lambda a: 0 if a[1].startswith('pair') else 1)
    return alphas[:limit], len(alphas), len(classes)


# --------------------------------------------------------------------------- assembling the corpus
def build(repo, native, tier, seed, log=None):
    rng = random.Random(seed)
    quick = tier == 'quick'
    specs = []
    N_small = 3 if quick else 4
    D = 16 if quick else 26
    mods = mapper.MODS
    seen = set()

    def add_spec(name, maps, N, depth, alphabet=None, note='', no_foreign=False):
        key = (repr(maps), tuple(alphabet) if alphabet else None, N)
        if key in seen:
            return
        seen.add(key)
        if alphabet is not None:
            layout_syms = set(k for m in maps for k in m['frm'] + m['to'] + m.get('absb', []) + list(m.get('rep', (0, None))[1] or ()) if isinstance(k, str))
            assert all(isinstance(k, int) or k in layout_syms for k in alphabet), 'alphabet symbol outside the layout in ' + name
        specs.append(Spec(name, [dict(m) for m in maps], N=N, depth=depth, alphabet=alphabet, note=note, no_foreign=no_foreign))

    for i, maps in enumerate(test_layouts(repo)):
        nkeys = len(distinct_keys(maps))
        add_spec('test/%d' % i, maps, N_small if nkeys <= 8 else (2 if quick else 3), D, note='unit-test layout')
    for name, maps in named_templates().items():
        add_spec('template/' + name, maps, N_small if len(maps) <= 3 else (3 if quick else 4), D, note='symbolic template')
    # four keys held: three chords sharing an output modifier (the shape of the fixed C19 defect, known_findings.json)
    deep = [dict(frm=K('$a0'), to=[]), dict(frm=K('$a0', '$a1'), to=K('LEFTSHIFT', '$a4')),
            dict(frm=K('$a0', '$a2'), to=K('LEFTSHIFT', '$a5')), dict(frm=K('$a0', '$a3'), to=K('$a4'))]
    add_spec('template/three-chords-shared-modifier/N4', deep, 4, max(D, 20), alphabet=K('$a0', '$a1', '$a2', '$a3'),
             note='symbolic template, four keys held, event keys restricted to the four trigger keys', no_foreign=quick)
    # four keys held, an absorbing chord and a plain chord on another modifier held together
    two = [dict(frm=K('LEFTSHIFT', '$a0'), to=K('LEFTSHIFT', '$a1'), absb=K('LEFTSHIFT')), dict(frm=K('LEFTCTRL', '$a2'), to=K('LEFTCTRL', '$a3'))]
    add_spec('template/absorbing-chord+plain-chord/N4', two, 4, max(D, 20), alphabet=K('LEFTSHIFT', 'LEFTCTRL', '$a0', '$a2'),
             note='symbolic template, four keys held, event keys restricted to the four trigger keys', no_foreign=True)
    nrand = 11 if quick else 60
    for i in range(nrand):
        nm = rng.choice([1, 2, 2]) if quick else rng.choice([1, 2, 2, 3, 3])
        maps = random_template(rng, nm)
        add_spec('template/G-%d-%d' % (seed, i), maps, N_small if nm <= 2 else 3, D, note='random symbolic template G(M,F,T)')
    nclosed = int(os.environ.get('VERIF_NCLOSED', '0')) or (40 if quick else 200)
    crng = random.Random(seed * 7919 + 13)
    for i in range(nclosed):
        maps, alpha = closed_template(crng)
        add_spec('template/C4-%d-%d' % (seed, i), maps, 4, max(D, 20), alphabet=alpha,
                 note='random symbolic template, four keys held, event keys restricted to the listed keys', no_foreign=True)
    nsingles = int(os.environ.get('VERIF_NSINGLES', '0')) or (24 if quick else 120)
    for i in range(nsingles):
        maps, alpha = singles_template(crng)
        add_spec('template/S4-%d-%d' % (seed, i), maps, 4, max(D, 20), alphabet=alpha,
                 note='random symbolic template of single-key mappings sharing outputs, four keys held, event keys restricted to the listed keys', no_foreign=True)
    big = []
    for name, maps in builtin_layouts(native).items():
        big.append(('builtin/' + name, maps))
    for i, maps in enumerate(readme_layouts(repo, native)):
        big.append(('readme/%d' % i, maps))
    for name, maps in big:
        nkeys = len(distinct_keys(maps))
        if nkeys <= 12:
            add_spec(name, maps, 3 if nkeys <= 8 else 2 if quick else 3, D, note='loaded by the real loader')
        else:
            small = len(maps) <= 60
            lim = (4 if quick else (6 if small else 12))
            n_big = (3 if small else 2) if quick else (4 if small else 3)
            alphas, total, ncls = sub_alphabets(maps, mods, lim, rng)
            for j, (alpha, why) in enumerate(alphas):
                add_spec('%s/alpha%d' % (name, j), maps, n_big, D, alphabet=alpha,
                         note='sub-alphabet (%s); %d of %d candidate sub-alphabets, %d mapping classes' % (why, len(alphas), total, ncls))
    return specs
