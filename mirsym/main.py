"""./check entry point: dispatch a property id to its harness."""
import argparse
import os
import sys
import traceback


def main():
    ap = argparse.ArgumentParser()
    ap.add_argument('prop')
    ap.add_argument('--tier', default=os.environ.get('VERIF_TIER', 'quick'), choices=['quick', 'thorough'])
    ap.add_argument('--replay', default=None)
    a = ap.parse_args()
    seed = int(os.environ.get('VERIF_SEED', '0') or 0)
    from .values import Unsupported
    from .frontend import BuildError
    try:
        if a.replay:
            from . import replay as _replay
            rc = _replay.replay(a.prop, a.replay)
        elif a.prop in ('C01', 'C02', 'C03', 'C04', 'C05', 'C06', 'C07', 'C08', 'C09', 'C19'):
            from . import mapper_run
            rc = mapper_run.check(a.prop, a.tier, seed)
        elif a.prop == 'C13':
            from . import convcheck
            rc = convcheck.check_c13(a.tier, seed)
        elif a.prop == 'C14':
            from . import convcheck
            rc = convcheck.check_c14(a.tier, seed)
        elif a.prop == 'C15':
            from . import convcheck
            rc = convcheck.check_c15(a.tier, seed)
        elif a.prop == 'C16':
            from . import kbdcheck
            rc = kbdcheck.check(a.prop, a.tier, seed)
        elif a.prop == 'C17':
            from . import esccheck
            rc = esccheck.check(a.prop, a.tier, seed)
        elif a.prop == 'C18':
            from . import iocheck
            rc = iocheck.check(a.prop, a.tier, seed)
        elif a.prop in ('C10', 'C11', 'C12', 'C20'):
            from . import loopcheck
            rc = loopcheck.check(a.prop, a.tier, seed)
        else:
            print('unknown property ' + a.prop)
            rc = 2
    except BuildError as e:
        print('INCONCLUSIVE property=%s the tree does not build: %s' % (a.prop, str(e)[-600:]))
        rc = 2
    except Unsupported as e:
        print('INCONCLUSIVE property=%s unsupported construct: %s' % (a.prop, e))
        traceback.print_exc()
        rc = 2
    except Exception as e:
        print('INCONCLUSIVE property=%s engine error: %s: %s' % (a.prop, type(e).__name__, str(e)[:300]))
        traceback.print_exc()
        rc = 2
    sys.stdout.flush()
    sys.stderr.flush()
    os._exit(rc)
    sys.exit(rc)


if __name__ == '__main__':
    main()
