"""Oracles for the mapper properties C01-C05, C07-C09, C19 (DESIGN.md sections 6, 7).

A monitor observes only the public API: the layout, the input events and the StepResults.
Key membership tests go through an equality oracle `q` (the symbolic interpreter: forks on
open key equalities; or ConcreteQ when judging native replays) so that the very same code
judges symbolic paths and concrete replays.
"""

MOD_NAMES = ('LEFTSHIFT', 'RIGHTSHIFT', 'LEFTMETA', 'RIGHTMETA', 'LEFTCTRL', 'RIGHTCTRL', 'LEFTALT', 'RIGHTALT')

MAPPER_PROPS = ('C01', 'C02', 'C03', 'C04', 'C05', 'C07', 'C08', 'C09', 'C19')


class ConcreteQ:
    def keq(self, a, b):
        return a == b

    def veq(self, a, b):
        return a == b


class Mon:
    """state + step function. All state is plain data (lists/tuples of ints / symbol names)."""

    def __init__(self, maps, mods, enabled=MAPPER_PROPS):
        # maps: list of dict(frm, to, rep=(kind, keys, d, i), absb, idx)
        self.maps = maps
        self.mods = list(mods)
        self.enabled = set(enabled)
        self.absorbing = any(m['absb'] for m in maps)
        self.has_norep = any(m['rep'][0] != 'Normal' for m in maps)
        self.P = []
        self.V = []
        self.E = []          # (mapping idx, fired step, norepeat fired since)
        self.recs = []       # C08 absorption windows
        self.stale = False
        self.block_press = False   # C07: no Pressed until the next acted press
        self.viol = []       # violations found on this path: (prop, what, ctx)
        self.dead = set()    # properties already violated on this path (their clauses are off)
        self.layout_keys = []
        for m in maps:
            for k in m['frm'] + m['to'] + m['absb'] + list(m['rep'][1] or ()):
                if k not in self.layout_keys:
                    self.layout_keys.append(k)
        self.consts = list(self.layout_keys) + [m_ for m_ in self.mods if m_ not in self.layout_keys]
        self._dist_done = False

    # ---- cloning / signature ------------------------------------------------
    def clone(self):
        m = Mon.__new__(Mon)
        m.maps = self.maps
        m.mods = self.mods
        m.enabled = self.enabled
        m.absorbing = self.absorbing
        m.has_norep = self.has_norep
        m.P = list(self.P)
        m.V = list(self.V)
        m.E = list(self.E)
        m.recs = [dict(r, P=list(r['P'])) for r in self.recs]
        m.stale = self.stale
        m.block_press = self.block_press
        m.viol = []
        m.dead = set(self.dead)
        m.layout_keys = self.layout_keys
        m.consts = self.consts
        m._dist_done = self._dist_done
        return m

    def sig(self, key):
        return (tuple(key(x) for x in self.P),
                tuple(sorted(str(key(x)) for x in self.V)),
                tuple((a, c) for a, b, c in self.E),
                tuple((str(key(r['M'])), str(key(r['t'])), r['m'], r['other'], tuple(sorted(str(key(x)) for x in r['P'])))
                      for r in self.recs),
                self.stale, self.block_press, tuple(sorted(self.dead)))

    def live_keys(self):
        out = list(self.P) + list(self.V)
        for r in self.recs:
            out += [r['M'], r['t']] + list(r['P'])
        return out

    # ---- helpers --------------------------------------------------------------
    def isin(self, q, k, lst):
        for x in lst:
            if q.keq(x, k):
                return True
        return False

    def ismod(self, q, k):
        return self.isin(q, k, self.mods)

    def classify(self, q, k):
        """eager classification of a new key against the layout's keys and the modifiers"""
        for c in self.consts:
            if q.keq(k, c):
                return
        for c in self.P:
            if q.keq(k, c):
                return
        for c in self.V:
            if q.keq(k, c):
                return

    def compute_dist(self, q):
        """distinguished output key per mapping: occurs in no other mapping's output and in no trigger"""
        if self._dist_done:
            return
        for m in self.maps:
            outs = []
            for o in m['to']:
                clash = False
                for m2 in self.maps:
                    if (m2 is not m and self.isin(q, o, m2['to'])) or self.isin(q, o, m2['frm']):
                        clash = True
                        break
                if not clash:
                    outs.append(o)
            m['dist'] = outs[-1] if outs else None
        self._dist_done = True

    def fail(self, prop, what, ctx):
        if prop in self.enabled and prop not in self.dead:
            self.viol.append((prop, what, ctx))
            self.dead.add(prop)

    def on(self, prop):
        return prop in self.enabled and prop not in self.dead

    def rule_r(self, q, k, Pprev):
        fired = None
        for m in self.maps:
            if q.keq(m['frm'][-1], k) and all(self.isin(q, t, Pprev) for t in m['frm'][:-1]):
                fired = m
        return fired

    # ---- one mapper step ---------------------------------------------------------
    def step(self, q, i, kind, k, evs, rep):
        """kind: 'Pressed'|'Released'; k: key; evs: [(kind, key)]; rep: (variant, keys, delay, interval)"""
        self.compute_dist(q)
        self.classify(q, k)
        heldbefore = self.isin(q, k, self.P)
        acted = (kind == 'Pressed' and not heldbefore) or (kind == 'Released' and heldbefore)
        Pprev = list(self.P)
        Vprev = list(self.V)
        Eprev = list(self.E)
        fired = None
        if acted and kind == 'Pressed' and not self.absorbing:
            fired = self.rule_r(q, k, Pprev)
        # physical fold
        if acted and kind == 'Pressed':
            self.P.append(k)
        if acted and kind == 'Released':
            self.P = [x for x in self.P if not q.keq(x, k)]
        # in-effect set (layouts without absorbing)
        norep_fire = False
        if not self.absorbing:
            if acted and kind == 'Released':
                self.E = [e for e in self.E if not self.isin(q, k, self.maps[e[0]]['frm'])]
            norep_fire = fired is not None and fired['rep'][0] != 'Normal'
            if norep_fire:
                self.E = [(a, b, True) for a, b, c in self.E]
            if fired is not None:
                self.E.append((fired['idx'], i, norep_fire))
        # fold outputs strictly (C19), remember V at each instant
        V = list(self.V)
        instants = []
        for kd, key in evs:
            if kd == 'Pressed':
                if self.isin(q, key, V):
                    self.fail('C19', 'key pressed while already down on the virtual keyboard', (i, key))
                else:
                    V.append(key)
            else:
                if not self.isin(q, key, V):
                    self.fail('C19', 'key released while up on the virtual keyboard', (i, key))
                V = [x for x in V if not q.keq(x, key)]
            instants.append(list(V))
        self.V = V
        pressed_now = [key for kd, key in evs if kd == 'Pressed']
        released_now = [key for kd, key in evs if kd == 'Released']

        # ---------------- C01
        if self.on('C01') and not self.P and self.V:
            self.fail('C01', 'virtual keys still held after every physical key was released', (i, list(self.V)))

        # ---------------- C08 (absorbing layouts)
        if self.absorbing:
            self.c08(q, i, kind, k, acted, evs, instants, Pprev, pressed_now)

        # ---------------- C02
        if self.on('C02'):
            for v in self.V:
                if not (self.isin(q, v, self.P) or any(self.isin(q, v, m['to']) and all(self.isin(q, t, self.P) for t in m['frm']) for m in self.maps)):
                    self.fail('C02', 'a: held virtual key is neither physically held nor output of a mapping whose triggers are held', (i, v))
                    break
                bad = False
                for m in self.maps:
                    if len(m['frm']) == 1 and q.keq(m['frm'][0], v) and not any(self.isin(q, v, m2['to']) for m2 in self.maps):
                        self.fail('C02', 'b: key with a single-key mapping (and in no output) appeared on the virtual keyboard', (i, v))
                        bad = True
                        break
                if bad:
                    break
            if kind == 'Released' and pressed_now:
                self.fail('C02', 'c: a physical release caused a virtual press', (i, pressed_now))
            if not self.absorbing:
                for e in self.E:
                    for t in self.maps[e[0]]['frm']:
                        if self.isin(q, t, self.V) and not any(self.isin(q, t, self.maps[e2[0]]['to']) for e2 in self.E):
                            self.fail('C02', 'd: trigger key of a mapping in effect is held on the virtual keyboard', (i, t, e[0]))
            else:
                # weak form for layouts with absorbing mappings, where the in-effect set is not tracked: a key t all of whose
                # mappings are single-key ones certainly fired one of them at its (acted) press, and that mapping stays in
                # effect while t is held; "some mapping in effect outputs t" is over-approximated by "some mapping that
                # outputs t has all its trigger keys held", so only certain violations are reported
                for t in self.V:
                    if not self.isin(q, t, self.P):
                        continue
                    ending = [m for m in self.maps if q.keq(m['frm'][-1], t)]
                    if not ending or any(len(m['frm']) != 1 for m in ending):
                        continue
                    if not any(self.isin(q, t, m2['to']) and all(self.isin(q, x, self.P) for x in m2['frm']) for m2 in self.maps):
                        self.fail('C02', 'd: key whose only mappings are single-key ones is held on the virtual keyboard although no mapping whose triggers are held outputs it', (i, t))
                        break

        # ---------------- C09
        if self.on('C09'):
            self.c09(q, i, kind, k, acted, evs, rep, fired)

        # ---------------- C03 / C04 / C07 on acted presses (rule R; layouts without absorbing)
        if acted and kind == 'Pressed' and not self.absorbing:
            if fired is not None:
                if self.on('C03'):
                    for o in fired['to']:
                        if self.ismod(q, o):
                            if not self.isin(q, o, self.V):
                                self.fail('C03', 'modifier output of the fired mapping not held at end of step', (i, fired['idx'], o))
                        elif not self.isin(q, o, pressed_now):
                            self.fail('C03', 'non-modifier output of the fired mapping got no press event in the step', (i, fired['idx'], o))
                    if fired['rep'][0] == 'Normal':
                        for o in fired['to']:
                            if not self.isin(q, o, self.V):
                                self.fail('C03', 'normal repeat: output not held at end of step', (i, fired['idx'], o))
                if self.on('C07') and fired['rep'][0] != 'Normal':
                    for v in self.V:
                        if not self.ismod(q, v):
                            self.fail('C07', 'repeatable (non-modifier) key left held after a no-repeat mapping fired', (i, fired['idx'], v))
                            break
                    for o in fired['to']:
                        if self.ismod(q, o):
                            if not self.isin(q, o, self.V):
                                self.fail('C07', 'modifier output of the no-repeat mapping not held', (i, fired['idx'], o))
                        elif not self.isin(q, o, pressed_now):
                            self.fail('C07', 'output of the no-repeat mapping was not pressed in the firing step', (i, fired['idx'], o))
                if self.on('C04') and fired['to'] and not self.ismod(q, fired['to'][-1]):
                    f = fired['to'][-1]
                    js = [idx for idx, (kd, key) in enumerate(evs) if kd == 'Pressed' and q.keq(key, f)]
                    if js:
                        Vj = instants[js[-1]]
                        for o in fired['to']:
                            if self.ismod(q, o) and not self.isin(q, o, Vj):
                                self.fail('C04', 'modifier listed in the mapping output not down at the key-down instant', (i, fired['idx'], o))
                        for d in Vj:
                            if self.ismod(q, d) and not self.isin(q, d, fired['to']):
                                okd = (self.isin(q, d, self.P) and not self.isin(q, d, fired['frm'])) or any(
                                    self.maps[e[0]]['to'] and self.ismod(q, self.maps[e[0]]['to'][-1]) and self.isin(q, d, self.maps[e[0]]['to'])
                                    for e in self.E)
                                if not okd:
                                    self.fail('C04', 'stale modifier down at the key-down instant', (i, fired['idx'], d))
            else:
                if self.on('C03'):
                    mentioned = any(self.isin(q, k, self.maps[e[0]]['frm']) or self.isin(q, k, self.maps[e[0]]['to']) for e in Eprev)
                    if mentioned:
                        if evs:
                            self.fail('C03', 'unmapped key mentioned by a mapping in effect emitted events', (i, evs))
                    else:
                        if not evs or evs[-1][0] != 'Pressed' or not q.keq(evs[-1][1], k):
                            self.fail('C03', 'unmapped key was not passed through as the last event', (i, evs))
            # distinguished outputs of mappings that did not fire must not be pressed
            if self.on('C03'):
                for m in self.maps:
                    if m is fired or m.get('dist') is None:
                        continue
                    d = m['dist']
                    if q.keq(d, k):
                        continue
                    if self.isin(q, d, pressed_now):
                        self.fail('C03', 'distinguished output of a mapping that should not fire was pressed', (i, m['idx'], None if fired is None else fired['idx']))

        # ---------------- C07 with absorbing: the fired mapping is read off its distinguished output
        if self.absorbing and self.on('C07') and acted and kind == 'Pressed':
            for m in self.maps:
                if m['rep'][0] == 'Normal' or m.get('dist') is None:
                    continue
                d = m['dist']
                if q.keq(d, k):
                    continue
                if self.isin(q, d, pressed_now):
                    norep_fire = True
                    for v in self.V:
                        if not self.ismod(q, v):
                            self.fail('C07', 'repeatable (non-modifier) key left held after a no-repeat mapping fired', (i, m['idx'], v))
                            break
                    for o in m['to']:
                        if self.ismod(q, o):
                            if not self.isin(q, o, self.V):
                                self.fail('C07', 'modifier output of the no-repeat mapping not held', (i, m['idx'], o))
                        elif not self.isin(q, o, pressed_now):
                            self.fail('C07', 'output of the no-repeat mapping was not pressed in the firing step', (i, m['idx'], o))
        # C07: until the next acted press no step emits a press
        if self.on('C07'):
            if acted and kind == 'Pressed':
                self.block_press = norep_fire
            elif self.block_press and pressed_now and kind == 'Released':
                self.fail('C07', 'a release event made a key held again after a no-repeat firing', (i, pressed_now))
        elif acted and kind == 'Pressed':
            self.block_press = False

        # ---------------- C05
        if self.on('C05'):
            self.c05(q, i, kind, k, acted, evs, Pprev, Vprev, Eprev, pressed_now, released_now, norep_fire)

    # ---- C05 ----------------------------------------------------------------------
    def c05(self, q, i, kind, k, acted, evs, Pprev, Vprev, Eprev, pressed_now, released_now, norep_fire):
        def foreign(x):
            return not self.isin(q, x, self.layout_keys)
        if self.absorbing:
            # weaker exception for layouts with absorbing: the fired mapping is not decided by rule R
            # A duplicate press of a key that some mapping absorbs is a fresh press for the mapper (it deliberately forgets an
            # absorbed key although it is physically held), so it may fire a no-repeat mapping (11.4, same reason as the C07 clause).
            absorbable = any(self.isin(q, k, m['absb']) for m in self.maps if m['absb'])
            norep_ok = (acted or absorbable) and kind == 'Pressed' and any(m['rep'][0] != 'Normal' and q.keq(m['frm'][-1], k) for m in self.maps)
        else:
            norep_ok = norep_fire
        for kd, key in evs:
            if kd == 'Pressed' and foreign(key) and not (acted and kind == 'Pressed' and q.keq(key, k)):
                self.fail('C05', 'a: foreign key pressed on the virtual keyboard without a physical press of it', (i, key))
                return
        if acted and kind == 'Pressed' and foreign(k):
            if sum(1 for kd, key in evs if kd == 'Pressed' and q.keq(key, k)) != 1:
                self.fail('C05', 'a: physical press of a foreign key was not forwarded exactly once', (i, evs))
                return
        for f in Pprev:
            if foreign(f) and self.isin(q, f, Vprev) and not self.isin(q, f, self.V):
                okf = (acted and kind == 'Released' and q.keq(f, k)) or (not self.ismod(q, f) and norep_ok)
                if not okf:
                    self.fail('C05', 'a: foreign key lifted before its physical release', (i, f))
                    return
        if acted and kind == 'Released' and foreign(k) and self.isin(q, k, Vprev) and not self.isin(q, k, released_now):
            self.fail('C05', 'a: physical release of a foreign key was not forwarded', (i, evs))
            return
        if not self.maps:
            # b: empty layout: output stream equals the acted input stream
            want = [(kind, k)] if acted else []
            if len(evs) != len(want) or any(a[0] != b[0] or not q.keq(a[1], b[1]) for a, b in zip(evs, want)):
                self.fail('C05', 'b: empty layout did not forward the event unchanged', (i, evs))
                return
        if acted and kind == 'Released':
            for v in released_now:
                if self.absorbing:
                    rel = q.keq(v, k) or any(self.isin(q, k, m['frm']) and self.isin(q, v, m['to']) for m in self.maps)
                else:
                    rel = q.keq(v, k) or any(self.isin(q, k, self.maps[e[0]]['frm']) and self.isin(q, v, self.maps[e[0]]['to']) for e in Eprev)
                if not rel:
                    self.fail('C05', 'c: a physical release lifted a key that is neither itself nor an output of a mapping triggered by it', (i, v))
                    return
                if not self.absorbing and any(self.isin(q, v, self.maps[e[0]]['to']) for e in self.E):
                    self.fail('C05', 'c: a physical release lifted an output of a mapping that remains in effect', (i, v))
                    return
        if acted and not self.absorbing:
            for e in self.E:
                if e in Eprev or (e[0], e[1], False) in Eprev:
                    m = self.maps[e[0]]
                    for o in m['to']:
                        if any(m2 is not m and self.isin(q, o, m2['to']) for m2 in self.maps):
                            continue
                        protected = (m['to'] and self.ismod(q, m['to'][-1]) and self.ismod(q, o)) or (
                            m['rep'][0] == 'Normal' and not any(self.ismod(q, x) for x in m['to']) and not e[2])
                        if protected and self.isin(q, o, released_now):
                            self.fail('C05', 'd: output of a mapping that stays in effect was lifted by an unrelated event', (i, m['idx'], o))
                            return

    # ---- C09 ----------------------------------------------------------------------
    def rep_equal(self, q, rep, m):
        _, keys, d, iv = m['rep']
        if rep[0] != 'Repeating':
            return False
        if len(rep[1]) != len(keys) or not all(q.keq(a, b) for a, b in zip(rep[1], keys)):
            return False
        return q.veq(rep[2], d) and q.veq(rep[3], iv)

    def c09(self, q, i, kind, k, acted, evs, rep, fired):
        if not self.absorbing:
            if not acted:
                if rep[0] != 'NoChange' or evs:
                    self.fail('C09', 'ignored event did not leave the repeat state unchanged (or emitted events)', (i, rep[0], evs))
            elif fired is not None and fired['rep'][0] == 'Special':
                if not self.rep_equal(q, rep, fired):
                    self.fail('C09', 'firing a Special-repeat mapping did not request exactly its repeat', (i, fired['idx'], rep[0]))
            elif rep[0] != 'Disabled':
                self.fail('C09', 'an acted event that fired no Special mapping did not cancel repeating', (i, rep[0]))
        else:
            if rep[0] == 'NoChange':
                if evs:
                    self.fail('C09', 'NoChange reported together with output events', (i, evs))
            elif rep[0] == 'Repeating':
                okr = kind == 'Pressed' and any(m['rep'][0] == 'Special' and q.keq(m['frm'][-1], k) and self.rep_equal(q, rep, m) for m in self.maps)
                if not okr:
                    self.fail('C09', 'repeat request does not match a Special mapping triggered by this press', (i, rep[0]))
            if not acted and not self.stale and not self.recs:
                # no absorption pending: the mapper's view of what is held equals the physical view
                if rep[0] != 'NoChange' or evs:
                    self.fail('C09', 'ignored event did not leave the repeat state unchanged (or emitted events)', (i, rep[0], evs))

    # ---- C08 ----------------------------------------------------------------------
    def same_set(self, q, a, b):
        return all(self.isin(q, x, b) for x in a) and all(self.isin(q, x, a) for x in b)

    def c08(self, q, i, kind, k, acted, evs, instants, Pprev, pressed_now):
        keep = []
        for r in self.recs:
            if q.keq(k, r['M']) and (kind == 'Pressed' or acted):
                continue
            keep.append(r)
        self.recs = keep
        if acted and kind == 'Pressed':
            for r in self.recs:
                if not q.keq(k, r['t']):
                    for m in self.maps:
                        if self.isin(q, r['M'], m['frm']) and m.get('dist') is not None and not q.keq(k, m['dist']) and self.isin(q, m['dist'], pressed_now):
                            self.fail('C08', 'a: a mapping requiring the absorbed modifier fired on a later key', (i, m['idx']))
                    for j, (kd, key) in enumerate(evs):
                        if kd == 'Pressed' and not self.ismod(q, key) and self.isin(q, r['M'], instants[j]):
                            if not any(self.isin(q, r['M'], m['to']) and all(self.isin(q, x, self.P) for x in m['frm']) for m in self.maps):
                                self.fail('C08', 'b: absorbed modifier down on the virtual keyboard when a later key was typed', (i, key))
                else:
                    if not r['other'] and self.same_set(q, Pprev + [k], r['P']):
                        m = self.maps[r['m']]
                        for o in m['to']:
                            if self.ismod(q, o):
                                if not self.isin(q, o, self.V):
                                    self.fail('C08', 'c: pressing the same trigger again did not fire the same mapping (modifier output)', (i, m['idx'], o))
                            elif not self.isin(q, o, pressed_now):
                                self.fail('C08', 'c: pressing the same trigger again did not fire the same mapping', (i, m['idx'], o))
        for r in self.recs:
            if not q.keq(k, r['t']):
                r['other'] = True
        if acted and kind == 'Pressed' and not self.recs:
            fired = self.rule_r(q, k, Pprev)
            if fired is not None and not self.stale:
                # d: nothing has been absorbed since all keys were last up (in particular every modifier absorbed earlier has been
                # released and pressed again): modifiers count, the last-listed satisfied mapping fires
                for o in fired['to']:
                    if self.ismod(q, o):
                        if not self.isin(q, o, self.V):
                            self.fail('C08', 'd: with nothing absorbed the satisfied mapping did not fire (modifier output not held)', (i, fired['idx'], o))
                    elif not self.isin(q, o, pressed_now):
                        self.fail('C08', 'd: with nothing absorbed the satisfied mapping did not fire (output not pressed)', (i, fired['idx'], o))
            if fired is not None and fired['absb'] and not self.stale:
                for M in fired['absb']:
                    self.recs.append(dict(M=M, t=k, m=fired['idx'], other=False, P=list(self.P)))
        if self.recs:
            self.stale = True
        if not self.P:
            self.stale = False
            self.recs = []
