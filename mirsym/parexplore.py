"""Parallel path exploration by decision-prefix work units (fork-based pool; the program and the harness
globals are inherited from the parent process)."""
import importlib
import multiprocessing as mp
import os

from . import mapper
from .interp import Interp
from .keytheory import KeyTheory
from .values import Panic, Unsupported, PathInfeasible, Violation

NCPU = int(os.environ.get('VERIF_JOBS', '16'))


class Cut(Exception):
    pass


def _mk(decisions, cut_at=None):
    it = Interp(mapper.PROG, decisions, keys=KeyTheory(mapper.DOMAIN))
    if cut_at is not None:
        orig = it.choose
        orig_decide = it.decide
        orig_eq = it.decide_eq

        def exploring():
            return it.dpos >= len(it.decisions) and len(it.decisions) >= cut_at

        def choose(n):
            if n > 1 and exploring():
                raise Cut()
            return orig(n)

        def decide(cond):
            if not isinstance(cond, (bool, int)) and exploring():
                raise Cut()
            return orig_decide(cond)

        def decide_eq(a, b):
            if exploring() and it.keys.ask(a.name if hasattr(a, 'name') else a, b.name if hasattr(b, 'name') else b) is None:
                raise Cut()
            return orig_eq(a, b)
        it.choose = choose
        it.decide = decide
        it.decide_eq = decide_eq
    return it


def _call(modname, fname, it, args):
    fn = getattr(importlib.import_module(modname), fname)
    return fn(it, *args)


def split(modname, fname, args, cut_at):
    units = []
    work = [[]]
    while work:
        d = work.pop()
        it = _mk(d, cut_at)
        try:
            _call(modname, fname, it, args)
            units.append(list(it.decisions[:it.dpos]))
        except Cut:
            units.append(list(it.decisions))
        except (Violation, Panic):
            units.append(list(it.decisions[:it.dpos]))
        except PathInfeasible:
            pass
        work.extend(it.new_branches)
    seen = set()
    out = []
    for u in units:
        if tuple(u) not in seen:
            seen.add(tuple(u))
            out.append(u)
    return out


def _worker(arg):
    modname, fname, args, prefix, summarise = arg
    work = [prefix]
    out = []
    npaths = 0
    steps = 0
    z3c = 0
    while work:
        d = work.pop()
        it = _mk(d)
        try:
            res = ('ok', _call(modname, fname, it, args))
        except Violation as v:
            res = ('viol', (v.what, v.ctx))
        except Panic as e:
            res = ('panic', str(e))
        except PathInfeasible:
            work.extend(it.new_branches)
            continue
        except Unsupported as e:
            res = ('unsupported', str(e))
        except Exception as e:      # engine bug: report it as inconclusive with the traceback, never as success
            import traceback
            res = ('unsupported', 'engine error %s: %s\n%s' % (type(e).__name__, e, traceback.format_exc()[-1500:]))
        work.extend(it.new_branches)
        npaths += 1
        steps += it.steps
        z3c += it.stats['z3_checks']
        s = getattr(importlib.import_module(modname), summarise)(it, res)
        if s is not None:
            out.append(s)
    return out, npaths, steps, z3c


def run(modname, fname, args, summarise, cut_at=2, pool=None):
    """explore all paths of modname.fname(it, *args) in parallel; summarise(it, (kind, payload)) -> picklable | None
    returns (list of summaries, paths, mir steps, z3 checks)"""
    units = split(modname, fname, args, cut_at)
    own = pool is None
    if own:
        pool = mp.Pool(NCPU)
    out = []
    npaths = steps = z3c = 0
    try:
        for o, n, s, z in pool.imap_unordered(_worker, [(modname, fname, args, u, summarise) for u in units]):
            out.extend(o)
            npaths += n
            steps += s
            z3c += z
    finally:
        if own:
            pool.terminate()
    return out, npaths, steps, z3c
