"""C16: keyboard selection. Both /proc/bus/input/devices extractors, parse_mask_hex, list_keyboards,
list_input_devices, flag_excluded*, filter_devices_verbose executed from MIR with /proc, sysfs and
canonicalize stubbed. The text is assembled from realistic device entries with symbolic structure
(presence/order of lines) and symbolic hex digits in the KEY / EV masks; the oracle is relational
(agreement of the two extractors, independence from neighbouring entries and order, selection rule)."""
import json
import os
import random
import time

import z3

from . import mapper, parexplore
from .checklib import log, Outcome, write_evidence
from .frontend import load_program, Native
from .interp import Interp
from .strmodels import glob_match
from .symstr import SStr, chars_of, normalize
from .values import (Cell, Ref, Adt, VecV, MapV, IterV, EnumC, Panic, Unsupported, PathInfeasible, Violation, UNIT, ok, err, some, none)

KBD_KEYS = '402000000 3803078f800d001 feffffdfffefffff fffffffffffffffe'
MOUSE_KEYS_KBDLIKE = '1f0000 0 0 0 0 0 40000 3803078f800d001 feffffdfffefffff fffffffffffffffe'.replace('40000 3803078f800d001', '40000 3803078f800d001')
# SCROLLDOWN = 178 -> word 2 (bits 128..191), bit 50
_scroll_word = '%x' % (0x3803078f800d001 | (1 << 50))
MOUSE_KEYS_SCROLL = '402000000 %s feffffdfffefffff fffffffffffffffe' % _scroll_word
POWER_KEYS = '10000000000000 0'
FEW_KEYS = '7'
# threshold mask: plenty of keys (num_keys >= 20) but only ESC + BACKSPACE among the "normal" keys in the fixed part;
# the symbolic digit (position 7 from the right of the last word: bits 28..31 = ENTER 28, A 30) decides the >= 3 rule
THRESH_HI = 'ffff0000ffff0000'

NAMES = ['AT Translated Set 2 keyboard', 'Logitech USB Optical Mouse', 'Razer DeathAdder', 'Power Button', 'cros_ec', 'Yubico YubiKey OTP',
         'Gaming KEYBOARD Mouse', 'totalmapper', 'SINO WEALTH Gaming KB ', 'Some "quoted"', 'Razer Razer Naga Trinity']
# a macro mouse's button interface: scroll keys in word 2, an empty word 1, the typing keys in word 0; no LEDs (a mouse)
MACRO_MOUSE_KEYS = '6000000000000 0 ffffffffffffffe'
# a keyboard whose bitmap has empty words between the typing keys and a vendor key in a high word
SPARSE_KBD_KEYS = '10000 0 0 0 0 feffffdfffefffff fffffffffffffffe'
# count threshold mask (one word): ESC..bit 17, ENTER (28), A (30) = 19 keys fixed; the symbolic top digit (bits 60..63) adds 0..4 keys,
# one of them in bit 63 of the word
COUNT_LOW = '%015x' % (sum(1 << b for b in range(1, 18)) | (1 << 28) | (1 << 30))
SYSFS = ['/devices/platform/i8042/serio0/input/input3', '/devices/pci0000:00/0000:00:14.0/usb1/1-2/1-2:1.0/0003:046D:C077.0001/input/input7',
         '/devices/pci0000:00/0000:00:14.0/usb1/1-3/input/input9', '/devices/virtual/input/input20', '/devices/virtual/input/input21',
         # a Bluetooth (uhid) keyboard: under /devices/virtual/ but not in the virtual *input* tree, so it is a real keyboard
         '/devices/virtual/misc/uhid/0005:046D:B342.0008/input/input34']
DEVNODE = {SYSFS[0]: '/dev/input/event3', SYSFS[1]: '/dev/input/event7', SYSFS[2]: '/dev/input/event9', SYSFS[3]: '/dev/input/event20', SYSFS[4]: None,
           SYSFS[5]: '/dev/input/event34'}
EVS = ['120013', '1f', '3', None]
PATTERNS = [[], ['*Mouse*'], ['Yubico*'], ['*'], ['?T Translated*', 'Razer*'], ['AT Translated Set 2 keyboard'], ['*keyboard', 'Power?Button'],
            ['SINO WEALTH Gaming KB ', '*"quoted"'], ['*KB']]


class Env:
    def __init__(self, text):
        self.text = text

    def read_to_string(self, it, path):
        if path == '/proc/bus/input/devices':
            return ok(self.text)
        return err(Adt('IoError', None, ['no such file ' + str(path)]))

    def canonicalize(self, it, path):
        return ok(path)


def dev_path_override(it, args):
    p = it.deref(args[0])
    if isinstance(p, SStr):
        raise Unsupported('symbolic sysfs path')
    d = DEVNODE.get(p)
    return ok(some(d) if d is not None else none())


class Entry:
    def __init__(self, name, sysfs, ev, key, order, sym=None):
        self.name = name
        self.sysfs = sysfs
        self.ev = ev
        self.key = key
        self.order = order       # order of the lines after I:
        self.sym = sym           # None | ('key', digit index from the right, term) | ('ev', idx, term)
        self.truth = None        # ground truth "is a keyboard" for realistic complete entries

    def lines(self):
        out = ['I: Bus=0011 Vendor=0001 Product=0001 Version=ab41']
        for o in self.order:
            if o == 'N' and self.name is not None:
                out.append('N: Name="%s"' % self.name)
            elif o == 'P':
                out.append('P: Phys=isa0060/serio0/input0')
            elif o == 'S' and self.sysfs is not None:
                out.append('S: Sysfs=' + self.sysfs)
            elif o == 'U':
                out.append('U: Uniq=')
            elif o == 'H':
                out.append('H: Handlers=sysrq kbd event3 leds')
            elif o == 'E' and self.ev is not None:
                out.append(self._mask('B: EV=', self.ev, 'ev'))
            elif o == 'K' and self.key is not None:
                out.append(self._mask('B: KEY=', self.key, 'key'))
            elif o == 'J':
                out.append('B: MSC=10')
        out.append('')
        return out

    def _mask(self, prefix, mask, which):
        if self.sym is not None and self.sym[0] == which:
            idx, term = self.sym[1], self.sym[2]
            chars = [ord(c) for c in prefix + mask]
            chars[len(chars) - 1 - idx] = term
            return SStr(chars)
        return prefix + mask

    def describe(self, model=None):
        d = {'name': self.name, 'sysfs': self.sysfs, 'ev': self.ev, 'key': self.key, 'order': ''.join(self.order)}
        if self.truth is not None:
            d['truth'] = self.truth
        if self.sym is not None:
            d['symbolic_digit'] = '%s mask, hex digit %d from the right' % (self.sym[0], self.sym[1])
        return d


def assemble(entries):
    parts = []
    symbolic = False
    for e in entries:
        for l in e.lines():
            parts.append(l)
            if isinstance(l, SStr):
                symbolic = True
    if not symbolic:
        return '\n'.join(parts) + '\n'
    chars = []
    for i, l in enumerate(parts):
        chars.extend(chars_of(l))
        chars.append(10)
    return SStr(chars)


def gen_entry(it, idx, stage):
    pick = lambda xs: xs[it.choose(len(xs))]
    if idx >= 1:
        # the neighbour: a complete real keyboard, or a keyboard-like mouse without LEDs (fields it may leak: EV mask, name, path)
        if it.choose(2) == 0:
            return Entry(NAMES[0], SYSFS[(idx + 1) % 3], '120013', KBD_KEYS, list('NPSUHEK'))
        return Entry(NAMES[2], SYSFS[(idx + 1) % 3], '1f', MOUSE_KEYS_SCROLL, list('NPSUHEK'))
    if stage == 'structure':
        # realistic entries; presence and order of the lines is the symbolic part
        kind = pick(['kbd', 'mouse-kbdlike', 'power', 'virtual-kbd', 'noname-kbd', 'bt-kbd', 'macro-mouse', 'sparse-kbd'])
        name = {'kbd': NAMES[0], 'mouse-kbdlike': NAMES[2], 'power': NAMES[3], 'virtual-kbd': NAMES[7], 'noname-kbd': None, 'bt-kbd': NAMES[0],
                'macro-mouse': NAMES[10], 'sparse-kbd': NAMES[0]}[kind]
        key = {'kbd': KBD_KEYS, 'mouse-kbdlike': MOUSE_KEYS_SCROLL, 'power': POWER_KEYS, 'virtual-kbd': KBD_KEYS, 'noname-kbd': KBD_KEYS, 'bt-kbd': KBD_KEYS,
               'macro-mouse': MACRO_MOUSE_KEYS, 'sparse-kbd': SPARSE_KBD_KEYS}[kind]
        ev = {'kbd': '120013', 'mouse-kbdlike': '1f', 'power': '3', 'virtual-kbd': '120013', 'noname-kbd': '120013', 'bt-kbd': '120013',
              'macro-mouse': '100013', 'sparse-kbd': '120013'}[kind]
        sysfs = SYSFS[3] if kind == 'virtual-kbd' else SYSFS[5] if kind == 'bt-kbd' else SYSFS[idx % 3]
        order = pick([list('NPSUHEK'), list('NPSUHKE'), list('NSK'), list('SNEK'), list('NPUHEK'), list('NSEJK'), list('KNSE'), list('NSHK')])
        if it.choose(2) == 1:
            ev = None
        e = Entry(name, sysfs, ev, key, order)
        # ground truth for realistic entries whose S: and N: lines precede the B: KEY= line (as the kernel prints them)
        if 'S' in order and order.index('S') < order.index('K') and ('N' not in order or order.index('N') < order.index('K')):
            e.truth = {'kbd': True, 'noname-kbd': True, 'virtual-kbd': True, 'mouse-kbdlike': False, 'power': False, 'bt-kbd': True,
                       'macro-mouse': False, 'sparse-kbd': True}[kind]
            if kind in ('kbd', 'virtual-kbd', 'bt-kbd', 'sparse-kbd') and 'N' not in order:
                e.truth = True
        return e
    if stage == 'names':
        name = pick(NAMES)
        key = pick([KBD_KEYS, MOUSE_KEYS_SCROLL, POWER_KEYS, FEW_KEYS])
        ev = pick(EVS)
        sysfs = pick([SYSFS[idx % 3], SYSFS[3], SYSFS[5]])
        return Entry(name, sysfs, ev, key, list('NPSUHEK'))
    if stage == 'masks':
        # symbolic hex digits: the KEY-mask digit holding ENTER/A and the EV-mask digit holding the LED bit
        which = pick(['key', 'key-count', 'ev'])
        name = pick([NAMES[0], NAMES[2], NAMES[1]])
        if which == 'key-count':
            # the "at least 20 keys" rule: 19 fixed keys, the top digit of the word symbolic
            term = z3.BitVec('cdigit%d' % idx, 32)
            it.assume(z3.Or(z3.And(z3.UGE(term, ord('0')), z3.ULE(term, ord('9'))), z3.And(z3.UGE(term, ord('a')), z3.ULE(term, ord('f')))))
            return Entry(name, SYSFS[idx % 3], '120013', 'X' + COUNT_LOW, list('NPSUHEK'), sym=('key', 15, term))
        if which == 'key':
            low = '0000000' + 'X' + '0004002'      # ESC (1), BACKSPACE (14) fixed; digit 7 symbolic
            low = '000000020' + low[9:] if False else low
            mask = THRESH_HI + ' ' + THRESH_HI + ' ' + low.replace('X', '0')
            term = z3.BitVec('kdigit%d' % idx, 32)
            it.assume(z3.Or(z3.And(z3.UGE(term, ord('0')), z3.ULE(term, ord('9'))), z3.And(z3.UGE(term, ord('a')), z3.ULE(term, ord('f')))))
            return Entry(name, SYSFS[idx % 3], '120013', mask, list('NPSUHEK'), sym=('key', 7, term))
        key = pick([KBD_KEYS, MOUSE_KEYS_SCROLL])
        term = z3.BitVec('edigit%d' % idx, 32)
        it.assume(z3.Or(z3.And(z3.UGE(term, ord('0')), z3.ULE(term, ord('9'))), z3.And(z3.UGE(term, ord('a')), z3.ULE(term, ord('f')))))
        return Entry(name, SYSFS[idx % 3], '100013', key, list('NPSUHEK'), sym=('ev', 4, term))
    raise ValueError(stage)


def run_extractors(it, prog, text):
    f1 = prog.find_fn('extract_keyboards_from_proc_bus_input_devices')
    f2 = prog.find_fn('extract_input_devices_from_proc_bus_input_devices')
    r1 = it.run(f1, [Ref(Cell(text)), False])
    r2 = it.run(f2, [Ref(Cell(text)), False])
    k1 = [(it.deref(x.f[0]), it.deref(x.f[1])) for x in r1.items]          # (sysfs, name)
    k2 = [(it.deref(x.f[0]), it.deref(x.f[1]), x.f[2]) for x in r2.items]  # (sysfs, name, is_keyboard)
    return k1, k2


def sval(x):
    return x if isinstance(x, str) else repr(x)


def c16_path(it, stage, nent):
    prog = mapper.PROG
    it.overrides[prog.find_fn('dev_path_for_sysfs_name').name] = dev_path_override
    entries = [gen_entry(it, i, stage) for i in range(nent)]
    # distinct sysfs paths (a kernel device has its own directory)
    seen = set()
    for e in entries:
        if e.sysfs in seen and e.sysfs is not None:
            base = e.sysfs
            e.sysfs = base + 'x%d' % len(seen)
            DEVNODE.setdefault(e.sysfs, None if DEVNODE.get(base) is None else DEVNODE[base] + 'x%d' % len(seen))
        seen.add(e.sysfs)
    perm = it.choose(2) if nent > 1 else 0
    ordered = list(reversed(entries)) if perm == 1 else entries
    pats = {'structure': [PATTERNS[0], PATTERNS[1], PATTERNS[4]], 'names': [PATTERNS[0], PATTERNS[1], PATTERNS[2], PATTERNS[6], PATTERNS[7], PATTERNS[8]], 'masks': [PATTERNS[0], PATTERNS[1]]}[stage]
    excludes = pats[it.choose(len(pats))]
    it._case = (entries, perm, excludes)
    text = assemble(ordered)
    it.env = Env(text)
    k1, k2 = run_extractors(it, prog, text)
    # ---- R1: the two extractors agree
    kb1 = [sval(s) for s, n in k1]
    kb2 = [sval(s) for s, n, isk in k2 if it.decide(isk)]
    if kb1 != kb2:
        raise Violation('C16', 'the two extractors classify an entry differently', {'all_keyboards': kb1, 'dev_file': kb2})
    # ---- R2: independence from neighbours and order: every entry classified as when it stands alone
    alone = {}
    for e in entries:
        if e.sysfs is None:
            continue
        t1 = assemble([e])
        a1, a2 = run_extractors(it, prog, t1)
        alone[e.sysfs] = (len(a1) == 1, [it.decide(x[2]) for x in a2] == [True])
        if alone[e.sysfs][0] != alone[e.sysfs][1]:
            raise Violation('C16', 'the two extractors classify an isolated entry differently', {'entry': e.describe()})
        if e.truth is not None and alone[e.sysfs][0] != e.truth:
            raise Violation('C16', 'a realistic %s entry is classified as %s' % ('keyboard' if e.truth else 'non-keyboard', 'not a keyboard' if e.truth else 'a keyboard'),
                            {'entry': e.describe()})
        inlist = e.sysfs in kb1
        if inlist != alone[e.sysfs][0]:
            raise Violation('C16', 'the classification of an entry depends on its neighbours / position', {'entry': e.describe(), 'alone': alone[e.sysfs][0], 'in_list': inlist})
    # ---- R3: selection
    expected = []
    for e in ordered:
        if e.sysfs is None or not alone[e.sysfs][0]:
            continue
        if e.sysfs.startswith('/devices/virtual/input/'):
            continue
        nm = e.name or ''
        if any(glob_match(p, nm) for p in excludes):
            continue
        d = DEVNODE.get(e.sysfs)
        if d is None:
            continue
        expected.append(d)
    f_list = prog.find_fn('list_keyboards')
    f_flag = prog.find_fn('flag_excluded')
    r = it.run(f_list, [False])
    if r.variant != 'Ok':
        raise Violation('C16', 'list_keyboards failed', {})
    exv = VecV(list(excludes))
    flagged = it.run(f_flag, [r.f[0], Ref(Cell(exv))])
    sel_all = [it.deref(x.f[0].f[0]) for x in flagged.items if not it.decide(x.f[1])]
    if sorted(map(sval, sel_all)) != sorted(expected):
        raise Violation('C16', '--all-keyboards selects a different set than real, non-virtual, non-excluded keyboards', {'selected': list(map(sval, sel_all)), 'expected': expected})
    f_filter = prog.find_fn('filter_devices_verbose')
    devs = VecV([d for d in DEVNODE.values() if d is not None])
    r2 = it.run(f_filter, [Ref(Cell(devs)), True, Ref(Cell(exv)), False])
    if r2.variant != 'Ok':
        raise Violation('C16', 'filter_devices_verbose failed', {})
    sel_file = [it.deref(x) for x in r2.f[0].items]
    if sorted(map(sval, sel_file)) != sorted(expected):
        raise Violation('C16', '--dev-file --only-if-keyboard selects a different set than real, non-virtual, non-excluded keyboards', {'selected': list(map(sval, sel_file)), 'expected': expected})
    # --dev-file without --only-if-keyboard: every listed non-virtual device that no pattern excludes
    expected_any = []
    for e in ordered:
        if e.sysfs is None or e.sysfs.startswith('/devices/virtual/input/'):
            continue
        a1, a2 = run_extractors(it, prog, assemble([e]))
        if len(a2) != 1:
            continue
        if any(glob_match(p, e.name or '') for p in excludes):
            continue
        if DEVNODE.get(e.sysfs) is not None:
            expected_any.append(DEVNODE[e.sysfs])
    r3 = it.run(f_filter, [Ref(Cell(devs)), False, Ref(Cell(exv)), False])
    if r3.variant != 'Ok':
        raise Violation('C16', 'filter_devices_verbose failed', {})
    sel_any = [it.deref(x) for x in r3.f[0].items]
    if sorted(map(sval, sel_any)) != sorted(expected_any):
        raise Violation('C16', '--dev-file (without --only-if-keyboard) selects a device that an --exclude pattern or the virtual tree rules out, or drops one that nothing rules out',
                        {'selected': list(map(sval, sel_any)), 'expected': expected_any})
    return len(expected)


def c16_summary(it, res):
    kind, payload = res
    entries, perm, excludes = getattr(it, '_case', ([], 0, []))
    zm = it.model() if it.solver is not None else None
    conc = []
    for e in (list(reversed(entries)) if perm == 1 else entries):
        d = e.describe()
        if e.sym is not None and zm is not None:
            v = zm.eval(e.sym[2], model_completion=True).as_long()
            mask = e.key if e.sym[0] == 'key' else e.ev
            lst = list(mask)
            lst[len(lst) - 1 - e.sym[1]] = chr(v) if 0x20 <= v < 0x7f else '0'
            d['key' if e.sym[0] == 'key' else 'ev'] = ''.join(lst)
        conc.append(d)
    case = {'entries': conc, 'excludes': list(excludes)}
    if kind == 'ok':
        return ('ok', payload, None, None)
    if kind == 'viol':
        return ('viol', payload[0], payload[1], case)
    return (kind, payload, None, case)


def concrete_text(case):
    out = []
    for d in case['entries']:
        e = Entry(d['name'], d['sysfs'], d['ev'], d['key'], list(d['order']))
        out.extend(e.lines())
    return '\n'.join(out) + '\n'


def ns_select(native, text, excludes, sysmap):
    """run the real list_keyboards / filter_devices_verbose natively inside a private mount namespace with a fake
    /proc/bus/input/devices, /sys and /dev/input built from the case"""
    import shutil
    import subprocess
    import tempfile
    from .frontend import BUILD
    os.makedirs(os.path.join(BUILD, 'tmp'), exist_ok=True)
    T = tempfile.mkdtemp(dir=os.path.join(BUILD, 'tmp'))
    try:
        os.makedirs(os.path.join(T, 'sys'))
        os.makedirs(os.path.join(T, 'devinput'))
        with open(os.path.join(T, 'devices'), 'w') as f:
            f.write(text)
        nodes = []
        for sysfs, node in sysmap.items():
            d = os.path.join(T, 'sys', sysfs.lstrip('/'))
            os.makedirs(d, exist_ok=True)
            if node:
                ev = os.path.basename(node)
                evdir = os.path.join(d, ev if ev.startswith('event') else 'event' + ev)
                os.makedirs(evdir, exist_ok=True)
                with open(os.path.join(evdir, 'uevent'), 'w') as f:
                    f.write('MAJOR=13\nMINOR=67\nDEVNAME=input/%s\n' % ev)
                open(os.path.join(T, 'devinput', ev), 'w').close()
                nodes.append(node)
        req = {'kind': 'kbd_select', 'text': text, 'excludes': list(excludes), 'namespace': True, 'all_nodes': sorted(set(nodes))}
        touch = ' '.join(': > /dev/input/%s;' % os.path.basename(n_) for n_ in sorted(set(nodes)))
        script = ('mount --make-rprivate / 2>/dev/null; mount --bind %s/sys /sys && mount --bind %s/devices /proc/bus/input/devices && '
                  'mount -t tmpfs tmpfs /dev && mkdir -p /dev/input && { %s } && exec %s' % (T, T, touch + ' true;', native.path))
        p = subprocess.run(['unshare', '-m', 'sh', '-c', script], input=json.dumps(req) + '\n', stdout=subprocess.PIPE, stderr=subprocess.PIPE, text=True, timeout=60)
        line = p.stdout.strip().split('\n')[-1] if p.stdout.strip() else ''
        try:
            return json.loads(line)
        except ValueError:
            return {'error': 'namespace replay failed: %s %s' % (p.stdout[-200:], p.stderr[-300:])}
    finally:
        shutil.rmtree(T, ignore_errors=True)


def native_judge(native, case):
    """replay the relational oracle on the native build. returns None | description"""
    text = concrete_text(case)
    sysmap = {d['sysfs']: DEVNODE.get(d['sysfs']) for d in case['entries'] if d['sysfs']}
    r = ns_select(native, text, case['excludes'], sysmap)
    if 'panic' in r:
        return 'panic: ' + r['panic']
    if 'ok' not in r:
        return None
    full = r['ok']
    case['native'] = full
    kb1 = full['keyboards']
    kb2 = [x[0] for x in full['input_devices'] if x[2]]
    if kb1 != kb2:
        return 'the two extractors classify an entry differently: %r vs %r' % (kb1, kb2)
    alone = {}
    for d in case['entries']:
        if not d['sysfs']:
            continue
        ra = native.ask({'kind': 'kbd_select', 'text': concrete_text({'entries': [d]}), 'excludes': []})['ok']
        a1 = len(ra['keyboards']) == 1
        a2 = [x[2] for x in ra['input_devices']] == [True]
        alone[d['sysfs']] = a1
        if a1 != a2:
            return 'the two extractors classify the isolated entry %r differently' % d['name']
        if d.get('truth') is not None and a1 != d['truth']:
            return 'the realistic entry %r (%s) is classified as %s' % (d['name'], 'a keyboard' if d['truth'] else 'not a keyboard', 'a keyboard' if a1 else 'not a keyboard')
        if (d['sysfs'] in kb1) != a1:
            return 'entry %r is %sa keyboard on its own but %s in this list' % (d['name'], '' if a1 else 'not ', 'one' if d['sysfs'] in kb1 else 'not one')
    expected = []
    for d in case['entries']:
        if not d['sysfs'] or not alone[d['sysfs']] or d['sysfs'].startswith('/devices/virtual/input/'):
            continue
        if any(glob_match(p, d['name'] or '') for p in case['excludes']):
            continue
        if sysmap.get(d['sysfs']):
            expected.append(sysmap[d['sysfs']])
    if sorted(full['selected_all']) != sorted(expected):
        return '--all-keyboards selects %r, expected %r' % (full['selected_all'], expected)
    if sorted(full['selected_dev_file']) != sorted(expected):
        return '--dev-file --only-if-keyboard selects %r, expected %r' % (full['selected_dev_file'], expected)
    expected_any = []
    for d in case['entries']:
        if not d['sysfs'] or d['sysfs'].startswith('/devices/virtual/input/'):
            continue
        ra = native.ask({'kind': 'kbd_select', 'text': concrete_text({'entries': [d]}), 'excludes': []})['ok']
        if len(ra['input_devices']) != 1:
            continue
        if any(glob_match(p, d['name'] or '') for p in case['excludes']):
            continue
        if sysmap.get(d['sysfs']):
            expected_any.append(sysmap[d['sysfs']])
    if 'selected_dev_file_any' in full and sorted(full['selected_dev_file_any']) != sorted(expected_any):
        return '--dev-file without --only-if-keyboard selects %r, expected %r' % (full['selected_dev_file_any'], expected_any)
    return None


def check(prop, tier, seed):
    t0 = time.time()
    prog = load_program()
    mapper.init(prog)
    oc = Outcome(prop)
    quick = tier == 'quick'
    stats = {'paths': 0, 'mir_steps': 0, 'z3_checks': 0}
    viols = []
    stages = [('structure', 2), ('names', 1), ('masks', 1), ('masks', 2)]
    if not quick:
        stages += [('structure', 1), ('names', 2), ('structure', 3)]
    stage_stats = []
    for stage, nent in stages:
        tt = time.time()
        outs, npaths, steps, z3c = parexplore.run('mirsym.kbdcheck', 'c16_path', (stage, nent), 'c16_summary', cut_at=3)
        stats['paths'] += npaths
        stats['mir_steps'] += steps
        stats['z3_checks'] += z3c
        nv = 0
        for kind, what, ctx, case in outs:
            if kind == 'ok':
                continue
            if kind == 'unsupported':
                oc.inconclusive.append('unsupported construct: %s' % what)
                continue
            nv += 1
            viols.append((stage, kind, what, ctx, case))
        stage_stats.append({'stage': stage, 'entries': nent, 'paths': npaths, 'violations': nv, 'secs': round(time.time() - tt, 1)})
        log('[C16] stage %-9s entries %d: %6d paths, %d violations, %.1fs' % (stage, nent, npaths, nv, time.time() - tt))
    native = Native()
    seen = {}
    for stage, kind, what, ctx, case in viols:
        role = what if kind == 'viol' else 'panic'
        if seen.get(role, 0) >= 3:
            continue
        seen[role] = seen.get(role, 0) + 1
        j = native_judge(native, case)
        case['property'] = 'C16'
        case['what'] = what
        if j is not None:
            oc.violations.append((role, '%s; entries %s excludes %r' % (j, json.dumps([{k: v for k, v in d.items() if k in ('name', 'sysfs', 'ev', 'order')} for d in case['entries']]), case['excludes']), case))
        else:
            oc.inconclusive.append('ENGINE-MISMATCH (symbolic violation not reproduced natively): %s %r' % (what, ctx))
    # differential validation: concrete texts through MIR and natively
    rng = random.Random(seed)
    validated = 0
    for _ in range(12 if quick else 100):
        ents = []
        for i in range(rng.randrange(1, 4)):
            ents.append({'name': rng.choice(NAMES), 'sysfs': SYSFS[i] if rng.random() < 0.8 else SYSFS[3], 'ev': rng.choice(EVS),
                         'key': rng.choice([KBD_KEYS, MOUSE_KEYS_SCROLL, POWER_KEYS, FEW_KEYS]), 'order': rng.choice(['NPSUHEK', 'NSKE', 'SNEK'])})
        case = {'entries': ents, 'excludes': rng.choice(PATTERNS)}
        text = concrete_text(case)
        it = Interp(prog)
        it.overrides[prog.find_fn('dev_path_for_sysfs_name').name] = dev_path_override
        it.env = Env(text)
        k1, k2 = run_extractors(it, prog, text)
        r = native.ask({'kind': 'kbd_select', 'text': text, 'excludes': case['excludes']})
        validated += 1
        if 'ok' not in r or r['ok']['keyboards'] != [s for s, n in k1] or [x[0] for x in r['ok']['input_devices']] != [s for s, n, k in k2]:
            oc.inconclusive.append('model/native disagreement on a /proc text: %r vs %r' % ([s for s, n in k1], str(r)[:300]))
            break
    native.close()
    cov = {
        'explanation': 'extract_keyboards_from_proc_bus_input_devices, extract_input_devices_from_proc_bus_input_devices, parse_mask_hex, list_keyboards, list_input_devices, flag_excluded, '
                       'flag_excluded_input_devices, filter_devices_verbose executed from MIR on /proc/bus/input/devices texts assembled from realistic entries; symbolic: which lines an entry has and in which order, '
                       'entry order, the exclude pattern set, and (stage masks) the hex digit of the KEY mask that holds ENTER/A and the hex digit of the EV mask that holds the LED bit (solver-decided thresholds); '
                       'oracle: relational (agreement, neighbour/order independence, selection rule for both discovery paths) plus ground truth for the realistic complete entries (AT keyboard, keyboard-like mouse without LEDs, power button)',
        'evaluations': stats['paths'], 'distinct_nontrivial': stats['paths'],
        'rule': 'one evaluation = one path = one derivation of the entry grammar x solver-decided class of the symbolic hex digits; distinct by construction',
        'samples': [{'stage': 'structure', 'entries': [Entry(NAMES[0], SYSFS[0], '120013', KBD_KEYS, list('NPSUHEK')).describe(), Entry(NAMES[2], SYSFS[1], None, MOUSE_KEYS_SCROLL, list('NSK')).describe()], 'excludes': ['*Mouse*']}],
        'stages': stage_stats, 'paths': stats['paths'], 'mir_statements_executed': stats['mir_steps'],
        'solver': {'z3 checks (classification of symbolic hex digits, mask bit tests)': stats['z3_checks']},
        'traces_validated_against_impl': validated,
        'functions_encoded': ['extract_keyboards_from_proc_bus_input_devices', 'extract_input_devices_from_proc_bus_input_devices', 'parse_mask_hex', 'list_keyboards', 'list_input_devices', 'flag_excluded (+closures)',
                              'flag_excluded_input_devices (+closures)', 'filter_devices_verbose'],
        'stubs': ['read_to_string(/proc/bus/input/devices) = the assembled text', 'dev_path_for_sysfs_name (sysfs walk) = fixed table sysfs path -> /dev/input/eventN', 'fs::canonicalize = identity', 'WildMatch = */? glob contract'],
        'bounds': '<= 2 entries (thorough: 3), names / sysfs paths / masks from finite pools, every entry starts with its I: line; outside: arbitrary strings as names and paths, the sysfs walk itself',
    }
    rc = oc.report()
    write_evidence(prop, tier, seed, cov, ['every kernel entry starts with an I: line (the entry delimiter)', 'device names and paths range over finite pools'], time.time() - t0, len(oc.violations))
    return rc
