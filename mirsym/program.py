"""Program: parsed MIR of the crate + ADT tables read from the sources + call resolution."""
import glob
import os
import re

from .mirparse import parse_file, SIMPLE_CONSTS
from .values import Unsupported


def strip_generics(name):
    """remove turbofish segments ::<...> from a path"""
    out = []
    i = 0
    n = len(name)
    while i < n:
        if name.startswith('::<', i) and not name.startswith('::<impl ', i):
            depth = 0
            j = i + 2
            while j < n:
                if name[j] == '<':
                    depth += 1
                elif name[j] == '>' and name[j - 1] != '-':
                    depth -= 1
                    if depth == 0:
                        break
                j += 1
            i = j + 1
            continue
        out.append(name[i])
        i += 1
    return ''.join(out)


class TypeDef:
    __slots__ = ('module', 'name', 'kind', 'fields', 'variants', 'disc', 'clike', 'tuple_struct')

    def __init__(self, module, name, kind):
        self.module = module
        self.name = name
        self.kind = kind          # 'struct' | 'enum'
        self.fields = []          # struct: field names in declaration order
        self.variants = []        # enum: [(name, [field names] | int arity)]
        self.disc = {}            # enum: variant -> discriminant
        self.clike = False
        self.tuple_struct = False


class Program:
    def __init__(self, mirpath, srcdir):
        self.mirpath = mirpath
        self.srcdir = srcdir
        SIMPLE_CONSTS.clear()
        self.funcs, self.errors = parse_file(mirpath)
        self.simple_consts = dict(SIMPLE_CONSTS)
        if self.errors:
            raise Unsupported('MIR parse errors: %r' % (self.errors[:3],))
        self.types = {}            # name -> [TypeDef]
        self._src_cache = {}
        self.load_types()
        self.by_method = {}
        self.closures = {}
        self._index_methods()
        self._index_lazy()
        self.lazy = {}
        self._call_cache = {}

    # ---- sources ----------------------------------------------------------
    def src_lines(self, module):
        if module not in self._src_cache:
            p = os.path.join(self.srcdir, module + '.rs')
            try:
                self._src_cache[module] = open(p).read().split('\n')
            except OSError:
                self._src_cache[module] = None
        return self._src_cache[module]

    def load_types(self):
        for p in sorted(glob.glob(os.path.join(self.srcdir, '*.rs'))):
            module = os.path.basename(p)[:-3]
            src = open(p).read()
            src = re.sub(r'//[^\n]*', '', src)
            for m in re.finditer(r'\benum\s+(\w+)\s*(?:<[^>{]*>)?\s*\{', src):
                body = self._body(src, m.end() - 1)
                td = TypeDef(module, m.group(1), 'enum')
                nxt = 0
                for part in self._split(body):
                    part = re.sub(r'#\[[^\]]*\]', '', part).strip()
                    if not part:
                        continue
                    vm = re.match(r'^(\w+)\s*(?:=\s*(-?(?:0x[0-9a-fA-F]+|\d+)))?', part)
                    name = vm.group(1)
                    if vm.group(2) is not None:
                        nxt = int(vm.group(2), 0)
                    fields = []
                    fm = re.match(r'^\w+\s*\{(.*)\}\s*$', part, re.S)
                    if fm:
                        fields = [re.match(r'\s*(?:pub\s+)?(\w+)\s*:', x).group(1)
                                  for x in self._split(fm.group(1)) if x.strip()]
                    tm = re.match(r'^\w+\s*\((.*)\)\s*$', part, re.S)
                    if tm:
                        fields = len([x for x in self._split(tm.group(1)) if x.strip()])
                    td.variants.append((name, fields))
                    td.disc[name] = nxt
                    nxt += 1
                td.clike = all(f == [] for _, f in td.variants) and len(td.variants) > 0
                self.types.setdefault(td.name, []).append(td)
            for m in re.finditer(r'\bstruct\s+(\w+)\s*(?:<[^>{(;]*>)?\s*\{', src):
                body = self._body(src, m.end() - 1)
                td = TypeDef(module, m.group(1), 'struct')
                for part in self._split(body):
                    part = re.sub(r'#\[[^\]]*\]', '', part).strip()
                    fm = re.match(r'^(?:pub(?:\([^)]*\))?\s+)?(\w+)\s*:', part)
                    if fm:
                        td.fields.append(fm.group(1))
                self.types.setdefault(td.name, []).append(td)

    def lookup_type(self, path):
        """path: list of segments (generics stripped). returns (TypeDef, variant|None) or None"""
        # enum variant: [..., Enum, Variant]; struct: [..., Struct]
        for pos in (-2, -1):
            if len(path) < -pos:
                continue
            name = path[pos]
            cands = self.types.get(name)
            if not cands:
                continue
            if pos == -2:
                cands = [c for c in cands if c.kind == 'enum' and path[-1] in c.disc]
            else:
                cands = [c for c in cands if c.kind == 'struct']
            if not cands:
                continue
            if len(cands) > 1 and len(path) >= -pos + 1:
                mod = path[pos - 1]
                c2 = [c for c in cands if c.module == mod]
                if c2:
                    cands = c2
            if len(cands) == 1:
                return cands[0], (path[-1] if pos == -2 else None)
            if len(cands) > 1:
                raise Unsupported('ambiguous type %r' % ('::'.join(path),))
        return None

    @staticmethod
    def _body(src, i):
        depth = 0
        j = i
        while True:
            if src[j] == '{':
                depth += 1
            elif src[j] == '}':
                depth -= 1
                if depth == 0:
                    return src[i + 1:j]
            j += 1

    @staticmethod
    def _split(body):
        out = []
        depth = 0
        cur = []
        for c in body:
            if c in '{(<[':
                depth += 1
            elif c in '})>]':
                depth -= 1
            if c == ',' and depth == 0:
                out.append(''.join(cur))
                cur = []
            else:
                cur.append(c)
        out.append(''.join(cur))
        return out

    # ---- call resolution --------------------------------------------------
    def _index_methods(self):
        for name, fn in self.funcs.items():
            if '{closure#' in name and fn.params:
                m = re.search(r'\{closure@[^}]*\}', fn.params[0][1])
                if m:
                    self.closures[m.group(0)] = fn
            m = re.search(r'<impl at [^>]*>::([A-Za-z_0-9]+)$', name)
            if not m:
                continue
            meth = m.group(1)
            sm = re.search(r'<impl at src/(\w+)\.rs:(\d+):(\d+): \d+:\d+>::[A-Za-z_0-9]+$', name)
            selfty = None
            trait = None
            if sm:
                lines = self.src_lines(sm.group(1))
                if lines is not None and int(sm.group(2)) - 1 < len(lines):
                    lineno = int(sm.group(2)) - 1
                    line = lines[lineno]
                    im = re.match(r'\s*impl\s*(?:<[^>]*>)?\s+([A-Za-z_0-9:]+)\s*(?:<[^>]*>)?\s+for\s+([A-Za-z_0-9:]+)', line)
                    if im:
                        trait, selfty = im.group(1).split('::')[-1], im.group(2).split('::')[-1]
                    else:
                        im = re.match(r'\s*impl\s*(?:<[^>]*>)?\s+([A-Za-z_0-9:]+)\s*(?:<[^>]*>)?\s*\{', line)
                        if im:
                            selfty = im.group(1).split('::')[-1]
                        elif '#[derive' in line:
                            rest = '\n'.join(lines[lineno:lineno + 40])
                            rest = re.sub(r'#\[[^\]]*\]', '', rest)
                            dm = re.search(r'\b(?:enum|struct)\s+(\w+)', rest)
                            if dm:
                                selfty = dm.group(1)
                    module = sm.group(1)
                    if selfty:
                        self.by_method.setdefault((selfty, meth), []).append((module, trait, fn))
            if selfty is None and fn.params:
                st = re.sub(r"^&('\w+ )?(mut )?", '', fn.params[0][1])
                st = strip_generics(st).split('<')[0].split('::')[-1]
                self.by_method.setdefault((st, meth), []).append((None, None, fn))

    def _index_lazy(self):
        raw = open(self.mirpath).read()
        inits = [f for nm, f in self.funcs.items() if '__static_ref_initialize' in nm and '{closure' not in nm]
        names = []
        for m in re.finditer(r'\{<(\w+) as Deref>::deref::__static_ref_initialize\}', raw):
            if m.group(1) not in names:
                names.append(m.group(1))
        # pair by order of appearance of the defining functions in the file
        order = []
        for m in re.finditer(r'^fn (.*?::deref::__static_ref_initialize)\(', raw, re.M):
            order.append(m.group(1))
        self.lazy_init = {}
        # the body of `deref` for static X mentions `{<X as Deref>::deref::__static_ref_initialize}`;
        # the initialiser function printed right after it belongs to X.
        pos_names = [(m.start(), m.group(1)) for m in re.finditer(r'fn\(\) -> [^{]*\{<(\w+) as Deref>::deref::__static_ref_initialize\}', raw)]
        pos_inits = [(m.start(), m.group(1)) for m in re.finditer(r'^fn (.*?::deref::__static_ref_initialize)\(', raw, re.M)]
        # robust pairing: k-th distinct static name <-> k-th initialiser definition
        seen = []
        for _, n in pos_names:
            if n not in seen:
                seen.append(n)
        keys = []
        for nm in self.funcs:
            if '__static_ref_initialize' in nm and '{closure' not in nm and '{constant' not in nm:
                keys.append(nm)
        if len(seen) == len(keys):
            for n, k in zip(seen, keys):
                self.lazy_init[n] = self.funcs[k]
        else:
            self.lazy_init_error = (seen, keys)

    def resolve(self, name):
        """callee path as printed at a call site -> Func | None"""
        if name in self._call_cache:
            return self._call_cache[name]
        f = self._resolve(name)
        self._call_cache[name] = f
        return f

    def _resolve(self, name):
        f = self.funcs.get(name)
        if f is not None:
            return f
        n = strip_generics(name)
        f = self.funcs.get(n)
        if f is not None:
            return f
        # Type::method  (inherent or trait method called by path)
        m = re.fullmatch(r'((?:\w+::)*)(\w+)::(\w+)', n)
        if m:
            cands = self.by_method.get((m.group(2), m.group(3)))
            if cands:
                mods = [x for x in m.group(1).split('::') if x]
                return self._pick(cands, mods[-1] if mods else None, None, name)
        # <Type as Trait>::method
        m = re.fullmatch(r"<((?:\w+::)*)(\w+)(?:<.*>)? as ((?:\w+::)*)(\w+)(?:<.*>)?>::(\w+)", n)
        if m:
            cands = self.by_method.get((m.group(2), m.group(5)))
            if cands:
                mods = [x for x in m.group(1).split('::') if x]
                return self._pick(cands, mods[-1] if mods else None, m.group(4), name)
        return None

    def _pick(self, cands, module, trait, name):
        c = cands
        if trait is not None:
            c2 = [x for x in c if x[1] == trait]
            if c2:
                c = c2
            else:
                c2 = [x for x in c if x[1] is None]
                if c2 and len(c2) < len(c):
                    c = c2
        if module is not None and len(c) > 1:
            c2 = [x for x in c if x[0] == module]
            if c2:
                c = c2
        if len(c) == 1:
            return c[0][2]
        # several candidates: same type name in several modules and an unqualified call:
        # rustc prints unqualified only when unambiguous in the crate, so prefer a unique type module
        fns = {id(x[2]): x[2] for x in c}
        if len(fns) == 1:
            return list(fns.values())[0]
        raise Unsupported('ambiguous callee %s (%d candidates)' % (name, len(c)))

    def closure_fn(self, ty):
        m = re.search(r'\{closure@[^}]*\}', ty)
        if m and m.group(0) in self.closures:
            return self.closures[m.group(0)]
        raise Unsupported('closure ' + ty)

    def find_fn(self, suffix):
        """unique function whose name is `suffix` or ends with `::suffix`"""
        c = [f for n, f in self.funcs.items() if n == suffix or n.endswith('::' + suffix) or n.endswith('>::' + suffix)]
        if len(c) != 1:
            raise Unsupported('function %s: %d candidates' % (suffix, len(c)))
        return c[0]

    def method(self, ty, meth, module=None, trait=None):
        cands = self.by_method.get((ty, meth))
        if not cands:
            raise Unsupported('no method %s::%s in the crate MIR' % (ty, meth))
        return self._pick(cands, module, trait, '%s::%s' % (ty, meth))
