"""C17: escape_one_char / systemd_arg_escape / build_exclude_text / build_service_text (incl. their format!
templates) on symbolic patterns, decoded back by an independent model of systemd's ExecStart parsing
(word splitting incl. the lone-semicolon command separator, quote removal, C-style unescaping, % specifiers,
$ expansion) executed symbolically."""
import json
import os
import random
import time

import z3

from . import mapper
from .checklib import log, Outcome, write_evidence
from .frontend import load_program, Native, REPO
from .interp import Interp
from .models import iter_of
from .symstr import SStr, chars_of, normalize
from .values import (Cell, Ref, Adt, VecV, IterV, Panic, Unsupported, PathInfeasible, Violation, UNIT)

EXPECT_HEAD = ['/usr/bin/totalmapper', 'remap', '--verbose', '--layout-file', '/etc/totalmapper.json', '--only-if-keyboard']
EXPECT_TAIL = ['--dev-file', '/<%I>']


def scalar(c):
    """valid non-NUL Unicode scalar value"""
    return z3.And(z3.ULE(c, 0x10FFFF), c != 0, z3.Or(z3.ULT(c, 0xD800), z3.UGT(c, 0xDFFF)))


class Dec:
    """systemd's reading of an ExecStart= value, on a list of chars (int | BV32). Forks through the interpreter's
    decide(), so it runs on symbolic text. Produces argv as lists of *bytes* (int | BV8-as-BV32 terms)."""

    def __init__(self, it):
        self.it = it

    def is_(self, c, ch):
        if isinstance(c, int):
            return c == ord(ch)
        return self.it.decide(c == ord(ch))

    def in_(self, c, chs):
        if isinstance(c, int):
            return chr(c) in chs
        return self.it.decide(z3.Or([c == ord(x) for x in chs]))

    def hexval(self, c):
        """-> int | BV32 value of a hex digit, or None if c is not a hex digit"""
        if isinstance(c, int):
            ch = chr(c)
            return int(ch, 16) if ch in '0123456789abcdefABCDEF' else None
        it = self.it
        if it.decide(z3.And(z3.UGE(c, ord('0')), z3.ULE(c, ord('9')))):
            return c - ord('0')
        if it.decide(z3.And(z3.UGE(c, ord('a')), z3.ULE(c, ord('f')))):
            return c - ord('a') + 10
        if it.decide(z3.And(z3.UGE(c, ord('A')), z3.ULE(c, ord('F')))):
            return c - ord('A') + 10
        return None

    def utf8(self, c):
        """code point (int | BV32) -> list of bytes (int | BV32 < 256)"""
        it = self.it
        if isinstance(c, int):
            return list(chr(c).encode('utf-8', 'surrogatepass'))
        if it.decide(z3.ULT(c, 0x80)):
            return [c]
        if it.decide(z3.ULT(c, 0x800)):
            return [0xC0 | z3.LShR(c, 6), 0x80 | (c & 0x3F)]
        if it.decide(z3.ULT(c, 0x10000)):
            return [0xE0 | z3.LShR(c, 12), 0x80 | (z3.LShR(c, 6) & 0x3F), 0x80 | (c & 0x3F)]
        return [0xF0 | z3.LShR(c, 18), 0x80 | (z3.LShR(c, 12) & 0x3F), 0x80 | (z3.LShR(c, 6) & 0x3F), 0x80 | (c & 0x3F)]

    def split(self, cs):
        """extract_first_word(EXTRACT_UNQUOTE|EXTRACT_CUNESCAPE) repeatedly -> list of words, each a list of
        ('cp', codepoint) | ('byte', value) units. Raises Violation on text systemd rejects."""
        words = []
        i = 0
        n = len(cs)
        WS = ' \t\n\r'
        while True:
            while i < n and self.in_(cs[i], WS):
                i += 1
            if i >= n:
                break
            # command separator (systemd.service(5), "Command lines": a semicolon passed as a separate word separates command
            # lines; config_parse_exec tests the raw text for an unquoted ';' followed by whitespace or the end), and its
            # documented escape, a lone '\;' word
            if self.is_(cs[i], ';') and (i + 1 >= n or self.in_(cs[i + 1], WS)):
                raise Violation('C17', 'a lone ; word is read by systemd as a command separator', {})
            if i + 1 < n and self.is_(cs[i], '\\') and self.is_(cs[i + 1], ';') and (i + 2 >= n or self.in_(cs[i + 2], WS)):
                words.append([('byte', 59)])
                i += 2
                continue
            word = []
            quote = None
            while i < n:
                c = cs[i]
                if quote is None and self.in_(c, WS):
                    break
                if quote is None and self.in_(c, '\'"'):
                    quote = '"' if self.is_(c, '"') else "'"
                    i += 1
                    continue
                if quote is not None and self.is_(c, quote):
                    quote = None
                    i += 1
                    continue
                if self.is_(c, '\\'):
                    i += 1
                    if i >= n:
                        raise Violation('C17', 'the line ends in a backslash (systemd rejects it)', {})
                    e = cs[i]
                    simple = {'a': 7, 'b': 8, 'f': 12, 'n': 10, 'r': 13, 't': 9, 'v': 11, '\\': 92, '"': 34, "'": 39, 's': 32}
                    done = False
                    for ch, val in simple.items():
                        if self.is_(e, ch):
                            word.append(('byte', val))
                            i += 1
                            done = True
                            break
                    if done:
                        continue
                    if self.is_(e, 'x'):
                        hs = [self.hexval(cs[i + k]) if i + k < n else None for k in (1, 2)]
                        if any(h is None for h in hs):
                            raise Violation('C17', '\\x is not followed by two hex digits (systemd rejects the escape)', {})
                        v = hs[0] * 16 + hs[1]
                        if isinstance(v, int) and v == 0:
                            raise Violation('C17', '\\x00 is rejected by systemd', {})
                        word.append(('byte', v))
                        i += 3
                        continue
                    if self.is_(e, 'u') or self.is_(e, 'U'):
                        nd = 4 if self.is_(e, 'u') else 8
                        hs = [self.hexval(cs[i + k]) if i + k < n else None for k in range(1, nd + 1)]
                        if any(h is None for h in hs):
                            raise Violation('C17', '\\u/\\U is not followed by 4/8 hex digits (systemd rejects the escape)', {})
                        v = 0
                        for h in hs:
                            v = v * 16 + h
                        word.append(('cp', v))
                        i += nd + 1
                        continue
                    if self.in_(e, '01234567'):
                        ds = []
                        for k in range(3):
                            if i + k < n and self.in_(cs[i + k], '01234567'):
                                ds.append(cs[i + k])
                            else:
                                raise Violation('C17', 'octal escape is not three digits (systemd rejects the escape)', {})
                        v = 0
                        for dgt in ds:
                            v = v * 8 + (dgt - ord('0'))
                        word.append(('byte', v))
                        i += 3
                        continue
                    raise Violation('C17', 'unknown escape sequence in the command line (systemd rejects it)', {'escape': e if isinstance(e, int) else str(e)})
                word.append(('cp', c))
                i += 1
            if quote is not None:
                raise Violation('C17', 'the command line has an unbalanced quote (systemd rejects the line)', {})
            words.append(word)
        return words

    def expand(self, word):
        """% specifier expansion, then $ environment expansion, on one unescaped word -> list of bytes or the placeholder"""
        out = []
        i = 0
        units = word
        n = len(units)

        def val(u):
            return u[1]
        while i < n:
            kind, v = units[i]
            if self.eqv(v, ord('%')):
                if i + 1 >= n:
                    raise Violation('C17', 'a lone % at the end of an argument (systemd: invalid specifier)', {})
                nv = val(units[i + 1])
                if self.eqv(nv, ord('%')):
                    out.append(ord('%'))
                    i += 2
                    continue
                if self.eqv(nv, ord('I')):
                    out.append('<%I>')
                    i += 2
                    continue
                raise Violation('C17', 'a % in the argument is read by systemd as a specifier', {})
            if self.eqv(v, ord('$')):
                if i + 1 < n and self.eqv(val(units[i + 1]), ord('$')):
                    out.append(ord('$'))
                    i += 2
                    continue
                raise Violation('C17', 'a $ in the argument is read by systemd as a variable reference', {})
            if kind == 'cp':
                out.extend(self.utf8(v))
            else:
                out.append(v)
            i += 1
        return out

    def eqv(self, v, k):
        if isinstance(v, int):
            return v == k
        return self.it.decide(v == k)


def run_case(prog, npat, lens, stats, classes=None):
    """all paths of build_service_text on npat symbolic patterns with the given lengths (parallel work units)"""
    from . import parexplore
    outs, npaths, steps, z3c = parexplore.run('mirsym.esccheck', 'c17_path', (npat, tuple(lens)), 'c17_summary', cut_at=8 if sum(l if isinstance(l, int) else len(l) for l in lens) >= 3 else 6)
    stats['paths'] += npaths
    stats['mir_steps'] += steps
    stats['z3_checks'] += z3c
    viols = []
    for kind, what, pats, q in outs:
        stats['queries'] += q
        if kind == 'viol':
            viols.append((what, pats))
        elif kind == 'panic':
            viols.append(('panic: %s' % what, pats))
        elif kind == 'unsupported':
            raise Unsupported(what)
    return viols


def c17_path(it, npat, lens):
    stats = {'queries': 0}
    it._pats = []
    it._q = stats
    _c17_body(mapper.PROG, it, npat, lens, stats)
    return None


def c17_summary(it, res):
    kind, payload = res
    q = getattr(it, '_q', {'queries': 0})['queries']
    if kind == 'ok':
        return ('ok', None, None, q)
    pats = getattr(it, '_pats', [])
    if kind == 'viol':
        mp = payload[1].get('model') if isinstance(payload[1], dict) else None
        if mp is None:
            mp = _model_pats(it, pats, None)
        return ('viol', payload[0], mp, q)
    if kind == 'panic':
        return ('panic', payload, _model_pats(it, pats, None), q)
    return (kind, payload, None, q)


def _c17_body(prog, it, npat, lens, stats):
    f = prog.find_fn('build_service_text')
    if True:
        if True:
            pats = []
        for p in range(npat):
            # lens[p]: a length (all characters symbolic) or a template (tuple of code points, None = symbolic character)
            tmpl = (None,) * lens[p] if isinstance(lens[p], int) else lens[p]
            cs = [z3.BitVec('c%d_%d' % (p, j), 32) if t is None else t for j, t in enumerate(tmpl)]
            for c in cs:
                if not isinstance(c, int):
                    it.assume(scalar(c))
            pats.append(cs)
        it._pats = pats
        if True:
            arg = IterV('owned', [SStr(list(cs)) for cs in pats], 0)
            text = it.run(f, [arg])
            cs = chars_of(text)
            dec = Dec(it)
            # find the ExecStart line
            lines = []
            cur = []
            for c in cs:
                if isinstance(c, int) and c == 10:
                    lines.append(cur)
                    cur = []
                else:
                    if not isinstance(c, int) and it.decide(c == 10):
                        raise Violation('C17', 'a raw newline from the pattern ends the ExecStart line', {})
                    cur.append(c)
            if cur:
                lines.append(cur)
            ex = [l for l in lines if len(l) >= 10 and all(isinstance(x, int) for x in l[:10]) and ''.join(chr(x) for x in l[:10]) == 'ExecStart=']
            if len(ex) != 1:
                raise Violation('C17', 'the unit text does not contain exactly one ExecStart= line', {'lines': len(ex)})
            words = dec.split(ex[0][10:])
            argv = [dec.expand(w) for w in words]
            want = [list(s.encode()) for s in EXPECT_HEAD]
            for cs_ in pats:
                want.append(list(b'--exclude'))
                b = []
                for c in cs_:
                    b.extend(list(chr(c).encode()) if isinstance(c, int) else dec.utf8(c))
                want.append(b)
            want += [list(b'--dev-file'), [ord('/'), '<%I>']]
            if len(argv) != len(want):
                raise Violation('C17', 'systemd reads a different number of arguments than were given', {'got': len(argv), 'want': len(want)})
            for ai, (g, w) in enumerate(zip(argv, want)):
                if len(g) != len(w):
                    raise Violation('C17', 'an argument has a different length after systemd\'s parsing', {'arg': ai})
                for x, y in zip(g, w):
                    if isinstance(x, str) or isinstance(y, str):
                        if x != y:
                            raise Violation('C17', 'the %I specifier of --dev-file was altered', {'arg': ai})
                        continue
                    if isinstance(x, int) and isinstance(y, int):
                        if x != y:
                            raise Violation('C17', 'an argument is not byte-for-byte what was given', {'arg': ai})
                        continue
                    xt = x if z3.is_expr(x) else z3.BitVecVal(x, 32)
                    yt = y if z3.is_expr(y) else z3.BitVecVal(y, 32)
                    stats['queries'] += 1
                    if it.check_sat(xt != yt):
                        raise Violation('C17', 'an argument is not byte-for-byte what was given', {'arg': ai, 'model': _model_pats(it, pats, xt != yt)})
    return None


def _model_pats(it, pats, extra):
    m = it.model(extra) if extra is not None else it.model()
    if m is None:
        return None
    out = []
    for cs in pats:
        s = ''
        for c in cs:
            v = c if isinstance(c, int) else m.eval(c, model_completion=True).as_long()
            if v == 0 or v > 0x10FFFF or 0xD800 <= v <= 0xDFFF:
                v = ord('a')
            s += chr(v)
        out.append(s)
    return out


# --------------------------------------------------------------------------- concrete reference decoder (for native replays)
class ConcIt:
    def decide(self, c):
        return bool(c)


def decode_concrete(text):
    """-> argv (list of bytes objects / with '<%I>' placeholders kept as str pieces) or raises Violation"""
    lines = text.split('\n')
    ex = [l for l in lines if l.startswith('ExecStart=')]
    if len(ex) != 1:
        raise Violation('C17', 'the unit text does not contain exactly one ExecStart= line', {'lines': len(ex)})
    dec = Dec(ConcIt())
    words = dec.split([ord(c) for c in ex[0][10:]])
    return [dec.expand(w) for w in words]


def judge_concrete(pats, text):
    """None or (what) if the service text does not decode to the expected argv"""
    try:
        argv = decode_concrete(text)
    except Violation as v:
        return v.what
    want = [list(s.encode()) for s in EXPECT_HEAD]
    for p in pats:
        want.append(list(b'--exclude'))
        want.append(list(p.encode('utf-8')))
    want += [list(b'--dev-file'), [ord('/'), '<%I>']]
    if argv != want:
        if len(argv) != len(want):
            return 'systemd reads a different number of arguments than were given'
        return 'an argument is not byte-for-byte what was given'
    return None


def role_of(what):
    return what


def _show_lens(lens):
    return [l if isinstance(l, int) else ''.join('?' if c is None else chr(c) for c in l) for l in lens]


def code_dictionary(repo):
    """tokens of the string literals of the code under test (the functions of src/udev_utils.rs reachable from
    build_service_text, and the constants they name): whole words, {..} placeholders, %x and $x forms, escape sequences.
    A pattern that happens to contain one of them is where a later textual substitution, a placeholder or a specifier of
    the tool's own making can collide with user text."""
    import re
    try:
        src = open(os.path.join(repo, 'src', 'udev_utils.rs'), encoding='utf-8').read()
    except OSError:
        return []
    # blank out literals and comments for brace matching (same length, so spans carry over)
    blank = re.sub(r'"(?:[^"\\]|\\.)*"|\'(?:[^\'\\]|\\.)[^\']{0,8}\'|//[^\n]*', lambda m: ' ' * len(m.group(0)), src)
    fns = {}
    for m in re.finditer(r'\bfn\s+([A-Za-z_0-9]+)', blank):
        i = blank.find('{', m.end())
        if i < 0:
            continue
        d, j = 0, i
        while j < len(blank):
            if blank[j] == '{':
                d += 1
            elif blank[j] == '}':
                d -= 1
                if d == 0:
                    break
            j += 1
        fns[m.group(1)] = (m.start(), j + 1)
    todo = ['build_service_text']
    spans = []
    seen = set()
    while todo:
        f = todo.pop()
        if f in seen or f not in fns or f == 'tests':
            continue
        seen.add(f)
        a_, b_ = fns[f]
        spans.append((a_, b_))
        for g in re.findall(r'(?<![.\w])([A-Za-z_0-9]+)\s*(?:::<[^>]*>)?\(', blank[a_:b_]):
            if g in fns and g not in seen:
                todo.append(g)
    body = ''.join(blank[a_:b_] for a_, b_ in spans)
    for m in re.finditer(r'^\s*(?:pub\s+)?(?:const|static)\s+([A-Z_0-9]+)\s*:[^=]*=', blank, re.M):
        if re.search(r'\b%s\b' % m.group(1), body):
            e = blank.find(';', m.end())
            spans.append((m.start(), e if e > 0 else m.end()))
    src = '\n'.join(src[a_:b_] for a_, b_ in spans)
    lits = re.findall(r'"((?:[^"\\]|\\.)*)"', src, re.S)
    toks = []

    def add(t):
        if t and len(t) <= 40 and t not in toks and '\x00' not in t:
            toks.append(t)
    for l in lits:
        try:
            l = bytes(l, 'utf-8').decode('unicode_escape').encode('latin-1', 'ignore').decode('utf-8', 'ignore') if '\\' in l else l
        except Exception:
            pass
        l = re.sub(r'\\\n\s*', '', l)            # line continuation inside a literal
        for w in l.split():
            add(w)
        for m in re.findall(r'\{[^{}\s]*\}|%[A-Za-z%]|\$[A-Za-z_{$][A-Za-z_}]*|\\\\x[0-9a-fA-F]{2}|--[a-z-]+|/[A-Za-z0-9_/.]+', l):
            add(m)
    return toks


def check(prop, tier, seed):
    t0 = time.time()
    prog = load_program()
    mapper.init(prog)
    oc = Outcome(prop)
    quick = tier == 'quick'
    stats = {'paths': 0, 'mir_steps': 0, 'z3_checks': 0, 'queries': 0}
    cases = [(1, [1]), (1, [2]), (2, [1, 1])]
    if not quick:
        cases += [(1, [3]), (2, [2, 1]), (2, [1, 2]), (3, [1, 1, 1])]
    # dictionary leg: tokens of the code's own string literals as patterns, alone and next to one symbolic character
    toks = code_dictionary(REPO)
    rngd = random.Random(seed)
    special = [t for t in toks if any(ch in t for ch in '{}%$\\\'"*?;')]
    plain = [t for t in toks if t not in special]
    cap = 40 if quick else 160
    if len(special) > cap:
        special = sorted(rngd.sample(special, cap), key=toks.index)
    if len(special) + len(plain) > cap:
        plain = sorted(rngd.sample(plain, max(0, cap - len(special))), key=toks.index)
    toks = special + plain
    ndict = 0
    for t in toks:
        tp = tuple(ord(ch) for ch in t)
        cases.append((1, [tp]))
        cases.append((1, [tp + (None,)]) if (ndict % 2 == 0 or not quick) else (1, [(None,) + tp]))
        if not quick:
            cases.append((1, [(None,) + tp]))
            cases.append((2, [tp, 1]))
        ndict += 1
    viols = []
    case_stats = []
    for npat, lens in cases:
        p0 = stats['paths']
        tt = time.time()
        viols += run_case(prog, npat, lens, stats)
        case_stats.append({'patterns': npat, 'lengths': _show_lens(lens), 'paths': stats['paths'] - p0, 'secs': round(time.time() - tt, 1)})
        if stats['paths'] - p0 > 1 or time.time() - tt > 2:
            log('[C17] %d pattern(s) %s: %d paths, %.1fs, violations so far %d' % (npat, _show_lens(lens), stats['paths'] - p0, time.time() - tt, len(viols)))
    native = Native()
    seen = {}
    for what, pats in viols:
        if pats is None:
            oc.inconclusive.append('no model for a symbolic violation: ' + what)
            continue
        if seen.get(what, 0) >= 3:
            continue
        seen[what] = seen.get(what, 0) + 1
        r = native.ask({'kind': 'service_text', 'excludes': pats})
        case = {'kind': 'service_text', 'excludes': pats, 'property': 'C17', 'what': what}
        if 'panic' in r:
            oc.violations.append((what, 'build_service_text panicked natively on %r: %s' % (pats, r['panic']), case))
            continue
        if 'ok' not in r:
            oc.inconclusive.append('native run failed: %r' % (r,))
            continue
        text = r['ok']['text']
        case['native_text'] = text
        j = judge_concrete(pats, text)
        if j is not None:
            ex = [l for l in text.split('\n') if l.startswith('ExecStart=')]
            oc.violations.append((role_for(pats, j), 'exclude pattern(s) %r: %s; ExecStart line: %r' % (pats, j, ex[0] if ex else text), case))
        else:
            oc.inconclusive.append('ENGINE-MISMATCH (symbolic violation not reproduced natively): %s on %r' % (what, pats))
    # differential validation of the fmt/string models: concrete patterns through MIR and natively
    rng = random.Random(seed)
    validated = 0
    pool = ['a', ' ', '*', '?', '\\', '"', "'", '\t', '\n', '\x07', '\x1b', '\x7f', '\u0085', '%', '$', 'é', '😀', ';', '-', 'Z', '0', '\x01', '\r', '\x08']
    f = prog.find_fn('build_service_text')
    for _ in range(30 if quick else 200):
        pats = [''.join(rng.choice(pool) for _ in range(rng.randrange(1, 4))) for _ in range(rng.randrange(0, 3))]
        it = Interp(prog)
        text = it.run(f, [IterV('owned', list(pats), 0)])
        r = native.ask({'kind': 'service_text', 'excludes': pats})
        validated += 1
        if 'ok' not in r or r['ok']['text'] != text:
            oc.inconclusive.append('model/native disagreement on build_service_text(%r): %r vs %r' % (pats, text, r))
            break
    native.close()
    cov = {
        'explanation': 'build_service_text -> build_exclude_text -> systemd_arg_escape -> escape_one_char (with their format! templates) executed symbolically from MIR on patterns whose characters are '
                       '32-bit symbols over all non-NUL Unicode scalar values; the produced unit text (symbolic characters and digits) is parsed back by a model of systemd\'s ExecStart rules run symbolically; '
                       'every byte of every decoded argument is compared with the UTF-8 bytes of the given pattern by a validity query',
        'evaluations': stats['paths'], 'distinct_nontrivial': stats['paths'],
        'rule': 'one evaluation = one symbolic path = one combination of character classes (escape table entries, control/non-control, digit counts, UTF-8 lengths) for the pattern list; distinct by construction',
        'samples': [{'patterns': 'one pattern of one symbolic character c0_0', 'classes': 'the 11 table entries, control (<128, <0x10000, else), other x 4 UTF-8 lengths'}] + case_stats,
        'cases': case_stats, 'paths': stats['paths'], 'mir_statements_executed': stats['mir_steps'],
        'solver': {'validity queries on decoded bytes': stats['queries'], 'z3 checks total (branch feasibility + validity)': stats['z3_checks']},
        'traces_validated_against_impl': validated,
        'functions_encoded': ['build_service_text', 'build_exclude_text (+ closure)', 'systemd_arg_escape', 'escape_one_char', 'char::is_control (model)', 'fmt::Arguments templates (model)'],
        'oracle': 'independent decoder: whitespace splitting, \'/" quote removal, C escapes \\a\\b\\f\\n\\r\\t\\v\\\\\\"\\\'\\s, \\xHH, \\NNN, \\uHHHH, \\UHHHHHHHH, then %% / %I specifiers, then $$; a lone ; argument is not judged',
        'bounds': 'pattern lists %r (number of patterns, lengths); longer patterns are outside the claim (the escaper is character-by-character)' % (cases,),
    }
    rc = oc.report()
    write_evidence(prop, tier, seed, cov, ['the model of systemd\'s parser (systemd.service(5), systemd.syntax(7), extract-word.c/cunescape) is the oracle, not code under test',
                                          'patterns are sequences of Unicode scalar values without NUL'], time.time() - t0, len(oc.violations))
    return rc


def role_for(pats, what):
    """role of a violation for known-findings matching: the class of the first offending character"""
    for p in pats:
        for ch in p:
            j = judge_concrete([ch], _escape_probe.get(ch, '')) if False else None
    return what
