"""Oracle for the per-device event loop (C10, C11, C12, C20), shared by the symbolic run and the
native replay. It observes only the Driver-trait boundary: what the loop asks the driver to do and
what the environment answered. The reference for "what should be written" is the real mapper run
sequentially on the events in the order the loop read them (DESIGN.md 7/C10-C12)."""

from .values import Violation


class LoopMonitor:
    def __init__(self, q, ref, layout_has_special=True):
        """q: logic oracle (keq, time_matches, t_add, t_expected); ref: reference mapper interface
        (step(kind,key)->(evs,rep), release_all()->evs, fresh())"""
        self.q = q
        self.ref = ref
        self.Qk = 0               # notified-but-unread counts (set by the environment)
        self.Qt = 0
        self.V = []               # virtual keyboard as written so far
        self.Vexp = []            # virtual keyboard after all expected sends
        self.expected = []        # expected (non-chord) sends not yet seen: ('evs', [...]) | ('release_set', [...])
        self.tablet = False
        self.rep = None           # dict(keys, delay, interval, t0, j)
        self.readings = []        # clock readings since the last poll returned
        self.chord_slot = False
        self.done = False
        self.fault = None
        self.sends_after_fault = 0
        self.saw_tablet = False
        self.nsends = 0
        self.nchords = 0
        self.P = []               # physical keys held, folded from the events read (None = unknown after tablet mode)
        self.absorbing = False
        self.c19 = None           # first redundant event in the written stream (recorded, not raised: C19 is judged next to the others)

    # ---- helpers
    def isin(self, k, lst):
        return any(self.q.keq(x, k) for x in lst)

    def fold(self, V, evs, strict_prop=None):
        V = list(V)
        for kd, k in evs:
            if kd == 'Pressed':
                if not self.isin(k, V):
                    V.append(k)
            else:
                V = [x for x in V if not self.q.keq(x, k)]
        return V

    def blame(self):
        return 'C12' if self.saw_tablet else 'C10'

    # ---- clock
    def on_now(self, t):
        self.readings.append(t)
        if self.rep is not None and self.rep['t0'] is None:
            self.rep['t0'] = t

    # ---- driver calls
    def on_poll(self, timeout):
        """timeout: None | ms term. called at poll entry"""
        if self.Qk or self.Qt:
            raise Violation('C10', 'the loop went back to waiting while events it was notified about are still unread',
                            {'unread_keyboard': self.Qk, 'unread_tablet': self.Qt})
        if self.expected:
            raise Violation(self.blame(), 'a non-empty mapper step output was not written before the loop went back to waiting',
                            {'missing': self.expected[0]})
        if self.chord_slot:
            self.chord_slot = False
            if self.rep is not None and not self.tablet:
                if any(not self.isin(k, self.V) for k in self.rep['keys']):
                    raise Violation('C11', 'the repeat timer expired but no chord was written', {'chords_so_far': self.rep['j']})
                self.rep['j'] += 1      # every chord key is already held: nothing to write
        if self.rep is not None and not self.tablet:
            if timeout is None:
                raise Violation('C11', 'a Special-repeat mapping fired but the loop waits without a time-out', None)
            r = self.rep
            if r['t0'] is None:
                raise Violation('C11', 'a Special-repeat mapping fired but the loop never read the clock', None)
            W = self.q.t_add(r['t0'], r['delay'], r['interval'], r['j'])
            cands = [self.q.t_expected(W, rd) for rd in self.readings[-3:]]
            if not self.q.time_matches(timeout, cands):
                raise Violation('C11', 'requested time-out differs from the schedule t0+delay+j*interval (drift or wrong delay/interval)',
                                {'j': r['j']})
        self.readings = self.readings[-1:] if self.rep is not None else []

    def on_poll_return(self, kind, genuine=False):
        if kind == 'timeout' and genuine:
            self.chord_slot = True

    def on_key_read(self, kind, key):
        self.Qk -= 1
        if self.tablet:
            # unseen key activity: the physical view is unknown after tablet mode
            self.P = None
            return
        acted = None
        if self.P is not None and not self.absorbing:
            held = self.isin(key, self.P)
            acted = (kind == 'Pressed' and not held) or (kind == 'Released' and held)
            if acted and kind == 'Pressed':
                self.P.append(key)
            elif acted:
                self.P = [x for x in self.P if not self.q.keq(x, key)]
        evs, rep = self.ref.step(kind, key)
        if acted and rep[0] == 'NoChange':
            # C11: any key event the mapper acts on ends the repeat, whatever the mapper reports (layouts without absorbing)
            rep = ('Disabled', None, None, None)
        if evs:
            self.expected.append(('evs', evs))
            self.Vexp = self.fold(self.Vexp, evs)
        if rep[0] == 'Repeating':
            self.rep = dict(keys=rep[1], delay=rep[2], interval=rep[3], t0=None, j=0)
        elif rep[0] == 'Disabled':
            self.rep = None

    def on_tablet_read(self, ev):
        self.Qt -= 1
        self.saw_tablet = True
        if self.Vexp:
            self.expected.append(('release_set', list(self.Vexp)))
            self.Vexp = []
        self.rep = None
        self.ref.fresh()
        self.P = None if (self.P is None or self.P or self.tablet) else []
        self.tablet = (ev == 'On')

    def on_send(self, evs):
        self.nsends += 1
        if self.fault is not None:
            raise Violation('C20', 'the loop wrote to the virtual keyboard after a driver call had failed', {'fault': self.fault})
        if self.done:
            raise Violation('C10', 'the loop wrote to the virtual keyboard after the device reported it is gone', None)
        if not self.chord_slot and self.c19 is None:
            # C19 on the stream the loop writes (timer chords excepted: C11's transience clause)
            Vt = list(self.V)
            for kd, k in evs:
                if kd == 'Pressed':
                    if self.isin(k, Vt):
                        self.c19 = ('loop: a key was pressed while already down on the virtual keyboard', {'key': k, 'evs': list(evs)})
                        break
                    Vt.append(k)
                else:
                    if not self.isin(k, Vt):
                        self.c19 = ('loop: a key was released while up on the virtual keyboard', {'key': k, 'evs': list(evs)})
                        break
                    Vt = [x for x in Vt if not self.q.keq(x, k)]
        if self.chord_slot:
            self.chord_slot = False
            if self.tablet:
                raise Violation('C12', 'a repeat chord was written while in tablet mode', {'evs': evs})
            if self.rep is None:
                raise Violation('C11', 'a repeat chord was written although no repeat is pending (cancelled or never requested)', {'evs': evs})
            keys = self.rep['keys']
            fresh = [k for k in keys if not self.isin(k, self.V)]
            want = [('Pressed', k) for k in fresh] + [('Released', k) for k in reversed(fresh)]
            if len(want) != len(evs) or any(a[0] != b[0] or not self.q.keq(a[1], b[1]) for a, b in zip(evs, want)):
                held = [k for k in keys if self.isin(k, self.V)]
                if held:
                    raise Violation('C11', 'chord-held: the repeat chord presses/releases a key that is already held on the virtual keyboard (not transient)',
                                    {'held': held, 'evs': evs})
                raise Violation('C11', 'the repeat chord is not the listed keys pressed in order and released in reverse', {'evs': evs, 'want': want})
            self.rep['j'] += 1
            self.nchords += 1
            return
        if self.tablet and not self.expected:
            raise Violation('C12', 'something was written to the virtual keyboard while in tablet mode', {'evs': evs})
        if not self.expected:
            raise Violation(self.blame(), 'the loop wrote events that are not the output of a mapper step on the delivered events', {'evs': evs})
        kind, want = self.expected.pop(0)
        if kind == 'evs':
            if len(want) != len(evs) or any(a[0] != b[0] or not self.q.keq(a[1], b[1]) for a, b in zip(evs, want)):
                raise Violation(self.blame(), 'written events differ from the mapper output for the delivered sequence', {'evs': evs, 'want': want})
        else:
            rel = [k for kd, k in evs if kd == 'Released']
            if any(kd != 'Released' for kd, k in evs) or len(rel) != len(want) or not all(self.isin(k, want) for k in rel) or not all(self.isin(k, rel) for k in want):
                raise Violation('C12', 'the tablet-mode change did not release exactly the keys held on the virtual keyboard', {'evs': evs, 'held': want})
        self.V = self.fold(self.V, evs)

    def on_end(self):
        self.done = True

    def on_fault(self, what):
        self.fault = what

    def on_return(self, variant, msg):
        """variant: 'Ok'|'Err'"""
        if self.fault is not None:
            if variant != 'Err':
                raise Violation('C20', 'a driver call failed but the loop returned Ok', {'fault': self.fault})
            if msg is not None and msg != self.fault:
                raise Violation('C20', 'the loop returned a different error than the one the driver reported', {'fault': self.fault, 'got': msg})
            return
        if variant != 'Ok':
            raise Violation('C10', 'the loop returned an error although no driver call failed', {'msg': msg})
        if self.expected:
            raise Violation(self.blame(), 'a non-empty mapper step output was never written', {'missing': self.expected[0]})
