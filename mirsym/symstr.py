"""Strings: concrete Python str, or SStr = list of chars (int | z3 BV32) with concrete length."""
import z3


class SStr:
    __slots__ = ('chars',)

    def __init__(self, chars):
        self.chars = list(chars)

    def __repr__(self):
        return 'SStr(%r)' % (self.chars,)

    def __len__(self):
        return len(self.chars)


def chars_of(s):
    if isinstance(s, str):
        return [ord(c) for c in s]
    return list(s.chars)


def normalize(chars):
    if all(isinstance(c, int) for c in chars):
        return ''.join(chr(c) for c in chars)
    return SStr(chars)


def schr(c):
    if isinstance(c, int):
        return chr(c)
    return SStr([c])


def sconcat(a, b):
    if isinstance(a, str) and isinstance(b, str):
        return a + b
    return normalize(chars_of(a) + chars_of(b))
