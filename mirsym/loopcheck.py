"""C10, C11, C12, C20: the real MIR of do_remapping_loop_one_device (with the real mapper underneath)
run against a symbolic environment bound to the private Driver trait: symbolic delivery schedules
(batching, late arrivals, spurious/genuine time-outs, interruptions, tablet events, device gone),
a symbolic non-decreasing clock, symbolic delay/interval, and a fault at any driver call."""
import json
import multiprocessing as mp
import os
import random
import re
import time

import z3

from . import mapper, corpus
from .checklib import log, Outcome, write_evidence
from .frontend import load_program, Native, tree_hash, engine_hash, BUILD, REPO, _Lock
from .interp import Interp
from .keytheory import KeyTheory
from .loopmon import LoopMonitor
from .mapper import kval, ev_list, rep_tuple
from .values import (Cell, Ref, Adt, VecV, EnumC, Sym, Opaque, Panic, Unsupported, PathInfeasible, Violation,
                     UNIT, ok, err, some, none, clone_val)

PROPS = ('C10', 'C11', 'C12', 'C20', 'C19')
NCPU = int(os.environ.get('VERIF_JOBS', '16'))
F_LOOP = None


class CutPath(Exception):
    pass


class Pruned(Exception):
    """the configuration at this poll was already expanded on another path (subsumed)"""


MEMO_ENABLED = True
MEMO = {}        # (spec id, canonical configuration at a poll entry) -> decision prefix of the first visitor


def _walk(it, v, depth=0):
    """canonical, hashable form of an interpreter value; raises KeyError('sym') on z3 terms"""
    if depth > 40:
        raise KeyError('deep')
    if isinstance(v, (int, bool, str)) or v is None:
        return v
    if z3.is_expr(v):
        raise KeyError('sym')
    if isinstance(v, EnumC):
        d = v.d
        if isinstance(d, Sym):
            d = it.keys.canon(d.name)
        elif z3.is_expr(d):
            raise KeyError('sym')
        return ('E', v.ty, d)
    if isinstance(v, Adt):
        return ('A', v.ty, v.variant, tuple(_walk(it, x, depth + 1) for x in v.f))
    if isinstance(v, VecV):
        return ('V',) + tuple(_walk(it, x, depth + 1) for x in v.items)
    if isinstance(v, Ref):
        try:
            return ('R', _walk(it, it.read(v.cell, v.path), depth + 1))
        except (Panic, Unsupported):
            return ('R', 'dangling')
    if isinstance(v, Opaque):
        return ('O', v.name)
    from .values import MapV, IterV, Uninit
    if isinstance(v, MapV):
        return ('M',) + tuple((_walk(it, k, depth + 1), _walk(it, c.v, depth + 1)) for k, c in v.entries)
    if isinstance(v, IterV):
        return ('I', v.kind, _walk(it, v.a, depth + 1) if not isinstance(v.a, list) else tuple(_walk(it, x, depth + 1) for x in v.a),
                _walk(it, v.b, depth + 1) if not isinstance(v.b, list) else None, v.c if isinstance(v.c, (int, bool)) or v.c is None else None)
    if isinstance(v, Uninit):
        return 'UNINIT'
    if isinstance(v, (list, tuple)):
        return tuple(_walk(it, x, depth + 1) for x in v)
    raise KeyError('unknown')


class LoopSpec:
    def __init__(self, name, maps, alphabet, E=3, T=0, B=2, W=4, intr=1, faults=False, late=True, note='', C=99, memo=False, empty=0):
        self.empty = empty           # max wake-ups in which a device is readable but its reader finds nothing to report
        self.C = C                   # max genuine time-outs (chords) per path
        self.memo = memo             # subsume configurations at poll entries (idle configurations only)
        self.name = name
        self.maps = maps
        self.alphabet = alphabet     # keys an event may carry: ints or 'f0' (foreign symbolic non-modifier key)
        self.E = E                   # max key events
        self.T = T                   # max tablet events
        self.B = B                   # max batch size per notification
        self.W = W                   # max wake-ups (polls) before the device is declared gone
        self.intr = intr
        self.faults = faults
        self.late = late
        self.note = note
        for i, m in enumerate(self.maps):
            m['idx'] = i
            m.setdefault('absb', [])
            m.setdefault('rep', ('Normal', None, None, None))

    def opaques(self):
        out = []
        for m in self.maps:
            for v in m['rep'][2:]:
                if isinstance(v, Opaque) and v.name not in [o.name for o in out]:
                    out.append(v)
        return out


# --------------------------------------------------------------------------- logic oracles
class SymQ:
    """symbolic logic oracle: key equality via the interpreter (forks), clock obligations as validity queries"""

    def __init__(self, it):
        self.it = it
        self.queries = 0

    def keq(self, a, b):
        return self.it.decide_eq(a, b)

    def t_add(self, t0, delay, interval, j):
        from .strmodels import _ms
        return t0 + _ms(delay) + j * _ms(interval)

    def t_expected(self, W, reading):
        return z3.If(reading >= W, z3.IntVal(1), W - reading)

    def time_matches(self, timeout, cands):
        for c in cands:
            self.queries += 1
            if not self.it.check_sat(timeout != c):
                return True
        return False


class SymRef:
    """reference = the real mapper's MIR run sequentially on the events in read order"""

    def __init__(self, it, spec):
        self.it = it
        self.spec = spec
        self.fresh()

    def fresh(self):
        lay = mapper.layout_val(mapper.Spec('ref', [dict(m) for m in self.spec.maps]))
        self.m = Cell(self.it.run(mapper.F_FOR_LAYOUT, [Ref(Cell(lay))]))

    def step(self, kind, key):
        r = self.it.run(mapper.F_STEP, [Ref(self.m), Adt('Event', kind, [kval(key)])])
        return ev_list(self.it, r.f[0]), rep_tuple(self.it, r.f[1])


# --------------------------------------------------------------------------- the symbolic environment
class Env:
    def __init__(self, it, spec):
        self.it = it
        self.spec = spec
        self.q = SymQ(it)
        self.mon = LoopMonitor(self.q, SymRef(it, spec))
        self.mon.absorbing = any(m.get('absb') for m in spec.maps)
        self.Qk = []
        self.Qt = []
        self.nkey = 0
        self.ntab = 0
        self.npoll = 0
        self.nintr = 0
        self.nempty = 0
        self.gone = False
        self.tgone = False
        self.t = z3.IntVal(0)
        self.nclock = 0
        self.script = []
        self.ncalls = 0
        self.fault_done = False
        self.sleeps = 0
        self.native_cons = []
        self.lates = []
        self.ngenuine = 0
        self.sid = None

    # ---- clock
    def now(self, it):
        c = z3.Int('t%d' % self.nclock)
        self.nclock += 1
        it.assume(c >= self.t)
        self.native_cons.append(c <= self.t + 2)       # preference for replays: time passes only inside poll
        self.t = c
        self.mon.on_now(c)
        self.script.append(['now'])
        return c

    def sleep(self, it, d):
        self.t = self.t + d
        self.sleeps += 1

    # ---- arrivals
    def new_key_event(self):
        it = self.it
        if getattr(self.spec, 'fixed_history', False):
            kind = 'Pressed' if self.nkey % 2 == 0 else 'Released'
            k = self.spec.alphabet[0]
        else:
            kind = 'Pressed' if it.choose(2) == 0 else 'Released'
            k = self.spec.alphabet[it.choose(len(self.spec.alphabet))]
        self.nkey += 1
        self.Qk.append((kind, k))
        self.mon.Qk += 1

    def new_tablet_event(self):
        ev = 'On' if self.it.choose(2) == 0 else 'Off'
        self.ntab += 1
        self.Qt.append(ev)
        self.mon.Qt += 1

    # ---- driver calls
    def call(self, it, m, a):
        self.ncalls += 1
        if self.mon.fault is not None:
            raise Violation('C20', 'the loop kept running (called %s) after a driver call had failed' % m, {'fault': self.mon.fault})
        if self.spec.faults and not self.fault_done and not self.mon.done:
            if it.choose(2) == 1:
                self.fault_done = True
                msg = 'injected fault at driver call %d (%s)' % (self.ncalls, m)
                self.mon.on_fault(msg)
                self.script.append([m, 'err', msg])
                return err(msg)
        if m == 'register_poll':
            self.script.append([m, 'ok'])
            return ok(Adt('PollRegistry', None, []))
        if m == 'poll':
            return self.poll(it, a)
        if m == 'next_keyboard':
            return self.next_keyboard(it)
        if m == 'next_tablet':
            return self.next_tablet(it)
        if m == 'send':
            evs = ev_list(it, it.deref(a[1]))
            self.script.append([m, 'ok'])
            self.mon.on_send(evs)
            return ok(UNIT)
        raise Unsupported('driver method ' + m)

    def poll(self, it, a):
        sp = self.spec
        to = a[2]
        timeout = None if to.variant == 'None' else to.f[0].f[0]
        self.mon.on_poll(timeout)
        self.npoll += 1
        if MEMO_ENABLED and sp.memo and self.mon.rep is None and not self.fault_done:
            key = self.memo_key(it, timeout)
            if key is not None:
                first = MEMO.get(key)
                mine = tuple(it.decisions[:it.dpos])
                if first is None:
                    MEMO[key] = mine
                elif first != mine[:len(first)] or len(first) != len(mine):
                    raise Pruned()
        opts = []
        cap = sp.W if not sp.memo else 4 * (sp.E + sp.T + sp.C + sp.intr) + 8
        if self.npoll <= cap:
            kleft = sp.E - self.nkey
            tleft = 0 if self.tgone else sp.T - self.ntab
            if getattr(sp, 'fixed_history', False):
                for b in sorted(set([1, 2, kleft])):
                    if 1 <= b <= kleft:
                        opts.append(('dev', ['K'], b, 0))
            else:
                for b in range(1, min(sp.B, kleft) + 1):
                    opts.append(('dev', ['K'], b, 0))
            for b in range(1, min(sp.B, tleft) + 1):
                opts.append(('dev', ['T'], 0, b))
            if kleft >= 1 and tleft >= 1:
                opts.append(('dev', ['K', 'T'], 1, 1))
                opts.append(('dev', ['T', 'K'], 1, 1))
            if self.nempty < sp.empty:
                # the device is readable but holds only records its reader skips (SYN, MSC_SCAN, other switches): Busy at once
                opts.append(('dev', ['K'], 0, 0))
                if not self.tgone:
                    opts.append(('dev', ['T'], 0, 0))
            if (timeout is not None and self.ngenuine < sp.C) or (timeout is None and (sp.memo or self.npoll <= 2)):
                opts.append(('timeout',))
            if self.nintr < sp.intr:
                opts.append(('intr',))
        opts.append(('gone', 0))
        if self.npoll <= cap and sp.E - self.nkey >= 1:
            opts.append(('gone', 1))
        if self.npoll <= cap and sp.T - self.ntab >= 1 and not self.tgone:
            # end-of-device in a notification that names the tablet switch too, in either order
            opts.append(('gone', 0, ['K', 'T']))
            opts.append(('gone', 0, ['T', 'K']))
            if True:
                # the tablet switch itself goes away (its reader answers End): alone, or with a key event in the same wake-up
                opts.append(('tgone', 0, ['T']))
                if sp.E - self.nkey >= 1:
                    opts.append(('tgone', 1, ['T', 'K']))
        o = opts[it.choose(len(opts))]
        if o[0] == 'dev':
            if o[2] == 0 and o[3] == 0:
                self.nempty += 1
            for _ in range(o[2]):
                self.new_key_event()
            for _ in range(o[3]):
                self.new_tablet_event()
            self.script.append(['poll', 'dev', o[1]])
            self.mon.on_poll_return('dev')
            return ok(Adt('PollResult', 'DeviceEvent', [VecV([Adt('Device', 'Keyboard' if d == 'K' else 'Tablet', []) for d in o[1]])]))
        if o[0] == 'timeout':
            genuine = timeout is not None
            if genuine:
                self.ngenuine += 1
                extra = z3.Int('late%d' % self.npoll)
                it.assume(extra >= 0)
                self.t = self.t + timeout + extra
                self.native_cons.append(extra <= 400)
                self.lates.append(extra)
            self.script.append(['poll', 'timeout', genuine, extra if genuine else 0])
            self.mon.on_poll_return('timeout', genuine)
            return ok(Adt('PollResult', 'TimedOut', []))
        if o[0] == 'intr':
            self.nintr += 1
            self.script.append(['poll', 'intr'])
            self.mon.on_poll_return('intr')
            return ok(Adt('PollResult', 'Interrupted', []))
        devs = o[2] if len(o) > 2 else ['K']
        if o[0] == 'tgone':
            self.tgone = True
        else:
            self.gone = True
            if 'T' in devs:
                self.new_tablet_event()
        for _ in range(o[1]):
            self.new_key_event()
        self.script.append(['poll', 'dev', devs])
        self.mon.on_poll_return('dev')
        return ok(Adt('PollResult', 'DeviceEvent', [VecV([Adt('Device', 'Keyboard' if d == 'K' else 'Tablet', []) for d in devs])]))

    def memo_key(self, it, timeout):
        """canonical form of everything the future can depend on at this poll entry, or None if it holds clock terms"""
        try:
            frame = None
            for fn, fr in it.frames:
                if fn is F_LOOP:
                    frame = (fn, fr)
                    break
            if frame is None:
                return None
            fn, fr = frame
            named = []
            for name in sorted(fn.debug):
                for loc in fn.debug[name]:
                    named.append((name, loc, _walk(it, fr[loc].v)))
            mon = self.mon
            if mon.expected or mon.chord_slot or mon.done:
                return None
            msum = (tuple(sorted(str(x) for x in mon.V)), tuple(sorted(str(x) for x in mon.Vexp)), mon.tablet, mon.saw_tablet,
                    None if mon.P is None else tuple(str(x) for x in mon.P), mon.fault)
            ref = _walk(it, mon.ref.m.v)
            esum = (self.nkey, self.ntab, self.nintr, self.ngenuine, self.gone, tuple(self.Qk), tuple(self.Qt), timeout is None,
                    min(self.npoll, 10 ** 6) if not self.spec.memo else 0)
            return (self.sid, tuple(named), msum, ref, esum)
        except KeyError:
            return None

    def next_keyboard(self, it):
        if not self.Qk and not self.gone and self.spec.late and self.nkey < self.spec.E:
            if it.choose(2) == 1:
                self.new_key_event()      # a late arrival while the loop is draining
        if self.Qk:
            kind, k = self.Qk.pop(0)
            self.script.append(['next_keyboard', 'one', [kind, k]])
            self.mon.on_key_read(kind, k)
            return ok(Adt('Next', 'One', [Adt('Event', kind, [kval(k)])]))
        if self.gone:
            self.script.append(['next_keyboard', 'end'])
            self.mon.on_end()
            return ok(Adt('Next', 'End', []))
        self.script.append(['next_keyboard', 'busy'])
        return ok(Adt('Next', 'Busy', []))

    def next_tablet(self, it):
        if self.Qt:
            ev = self.Qt.pop(0)
            self.script.append(['next_tablet', 'one', ev])
            self.mon.on_tablet_read(ev)
            return ok(Adt('Next', 'One', [EnumC('TableModeEvent', mapper.PROG.types['TableModeEvent'][0].disc[ev])]))
        if self.tgone:
            # the switch device is gone: nothing more can be learnt about the mode; what the loop does next is judged by
            # the rules that still apply (silence while in tablet mode, C12; mapper outputs otherwise, C10)
            self.script.append(['next_tablet', 'end'])
            return ok(Adt('Next', 'End', []))
        self.script.append(['next_tablet', 'busy'])
        return ok(Adt('Next', 'Busy', []))

    def call_unknown(self, it, name, a):
        if name.startswith('<impl Driver as Driver>::'):
            return self.call(it, name.split('::')[-1], a)
        raise Unsupported('no model for callee ' + name)


def root_theory(spec):
    kt = KeyTheory(mapper.DOMAIN)
    consts = []
    for m in spec.maps:
        for k in m['frm'] + m['to'] + m['absb'] + list(m['rep'][1] or ()):
            if isinstance(k, int) and k not in consts:
                consts.append(k)
    for k in spec.alphabet:
        if isinstance(k, int) and k not in consts:
            consts.append(k)
    for k in spec.alphabet:
        if isinstance(k, str):
            for c in consts + [m for m in mapper.MODS if m not in consts]:
                kt.assert_lit(k, c, False)
    return kt


def run_path(spec, decisions, cut_at=None, sid=None):
    """one path of the loop under the symbolic environment. returns dict(outcome...)"""
    it = Interp(mapper.PROG, decisions, keys=root_theory(spec))
    it.cut_at = cut_at
    env = Env(it, spec)
    env.sid = id(spec) if sid is None else sid
    it.env = env
    for o in spec.opaques():
        it.assume(o.term >= 0)      # delay/interval in [0, 2^31): the documented non-negative range
    lay = mapper.layout_val(mapper.Spec('loop', [dict(m) for m in spec.maps]))
    out = {'viol': None, 'panic': None, 'cut': False, 'pruned': False}
    try:
        if cut_at is not None:
            _install_cut(it, cut_at)
        r = it.run(F_LOOP, [Ref(Cell(Adt('Driver', None, []))), lay, False])
        msg = None
        if r.variant == 'Err':
            msg = r.f[0] if isinstance(r.f[0], str) else None
        env.mon.on_return(r.variant, msg)
    except Violation as v:
        out['viol'] = (v.prop, v.what, v.ctx)
    except Panic as e:
        out['panic'] = str(e)
    except CutPath:
        out['cut'] = True
    except Pruned:
        out['pruned'] = True
    except PathInfeasible:
        out['infeasible'] = True
    out['it'] = it
    out['env'] = env
    return out


def _install_cut(it, cut_at):
    """stop exploring (not replaying) once the decision list reaches cut_at: the prefix becomes a work unit"""
    orig_choose, orig_decide_eq, orig_decide = it.choose, it.decide_eq, it.decide

    def guard():
        if it.dpos >= len(it.decisions) and len(it.decisions) >= cut_at:
            raise CutPath()

    def choose(n):
        if n > 1:
            guard()
        return orig_choose(n)
    it.choose = choose


def concretise_script(spec, env, it):
    """concrete driver script + layout for the native replay"""
    syms = [k for k in spec.alphabet if isinstance(k, str)]
    sat, model = it.keys.solve(syms)
    if not sat:
        return None
    m = None
    consistent = False
    if it.solver is not None:
        # replay-friendly model: small delays, time passing only inside poll; fall back to any model
        pref = list(env.native_cons)
        for o in spec.opaques():
            pref.append(z3.And(o.term >= 20, o.term <= 250))
        m = it.model(*pref)
        if m is None:
            m = it.model(*(list(env.native_cons) + [z3.And(o.term >= 0, o.term <= 250) for o in spec.opaques()]))
        consistent = m is not None
        if m is None:
            m = it.model()
    vals = {}
    for o in spec.opaques():
        v = None
        if m is not None:
            v = m.eval(o.term, model_completion=True).as_long()
        vals[o.name] = v if v is not None else 0
    if not consistent:
        # keep native replays short: small positive delays
        for i, o in enumerate(spec.opaques()):
            if vals[o.name] > 400 or vals[o.name] < 5:
                vals[o.name] = 60 + 25 * i

    def kc(k):
        return k if isinstance(k, int) else model[k]
    lay = []
    for mp_ in spec.maps:
        rep = mp_['rep']
        if rep[0] == 'Special':
            r = {'keys': [kc(x) for x in rep[1]], 'delay_ms': vals[rep[2].name] if isinstance(rep[2], Opaque) else rep[2],
                 'interval_ms': vals[rep[3].name] if isinstance(rep[3], Opaque) else rep[3]}
        else:
            r = rep[0]
        lay.append({'from': [kc(x) for x in mp_['frm']], 'to': [kc(x) for x in mp_['to']], 'repeat': r,
                    'absorbing': [kc(x) for x in mp_['absb']]})
    script = []
    for s in env.script:
        if s[0] == 'now':
            continue
        s = list(s)
        if s[0] == 'next_keyboard' and s[1] == 'one':
            s[2] = ['P' if s[2][0] == 'Pressed' else 'R', kc(s[2][1])]
        if s[0] == 'poll' and s[1] == 'timeout':
            ex = s[3]
            if z3.is_expr(ex):
                ex = m.eval(ex, model_completion=True).as_long() if (m is not None and consistent) else 25
            s[3] = int(min(max(ex, 0), 400)) + 12
        script.append(s)
    return lay, script


# --------------------------------------------------------------------------- exploration
SPECS = {}


def _w_init(prog, specs):
    global SPECS, F_LOOP
    if mapper.PROG is None:
        mapper.init(prog)
    F_LOOP = mapper.PROG.find_fn('do_remapping_loop_one_device')
    SPECS = specs


def _w_unit(arg):
    sid, prefix, budget_s = arg
    spec = SPECS[sid]
    t0 = time.time()
    work = [prefix]
    stats = {'paths': 0, 'mir_steps': 0, 'driver_calls': 0, 'z3_checks': 0, 'time_queries': 0, 'sends': 0, 'chords': 0,
             'polls': 0, 'faults': 0, 'panics': 0, 'timed_out': False}
    viols = []
    samples = []
    while work:
        d = work.pop()
        o = run_path(spec, d, sid=sid)
        it, env = o['it'], o['env']
        work.extend(it.new_branches)
        if o.get('infeasible'):
            continue
        if o.get('pruned'):
            stats['subsumed'] = stats.get('subsumed', 0) + 1
            stats['mir_steps'] += it.steps
            continue
        stats['paths'] += 1
        stats['mir_steps'] += it.steps
        stats['driver_calls'] += env.ncalls
        stats['z3_checks'] += it.stats['z3_checks']
        stats['time_queries'] += env.q.queries
        stats['sends'] += env.mon.nsends
        stats['chords'] += env.mon.nchords
        stats['polls'] += env.npoll
        stats['faults'] += 1 if env.fault_done else 0
        if o['panic'] is not None:
            stats['panics'] += 1
            c = concretise_script(spec, env, it)
            viols.append(('PANIC', 'the loop panicked: ' + o['panic'], None, c, [list(s) for s in env.script if s[0] != 'now']))
        if env.mon.c19 is not None and sum(1 for v in viols if v[0] == 'C19') < 3:
            c = concretise_script(spec, env, it)
            viols.append(('C19', env.mon.c19[0], env.mon.c19[1], c, None))
        if o['viol'] is not None:
            if sum(1 for v in viols if v[0] == o['viol'][0]) < 4:
                c = concretise_script(spec, env, it)
                viols.append(o['viol'] + (c, None))
        elif random.random() < 0.01 and len(samples) < 3:
            c = concretise_script(spec, env, it)
            samples.append({'script': c[1] if c else None, 'sends': env.mon.nsends, 'chords': env.mon.nchords})
        if time.time() - t0 > budget_s:
            stats['timed_out'] = bool(work)
            break
    return sid, stats, viols[:12], samples


def make_units(spec, sid, cut_at):
    """split the decision tree into work units (decision prefixes of length cut_at)"""
    global MEMO_ENABLED
    MEMO_ENABLED = False
    try:
        return _make_units(spec, sid, cut_at)
    finally:
        MEMO_ENABLED = True
        MEMO.clear()


def _make_units(spec, sid, cut_at):
    units = []
    work = [[]]
    done_paths = 0
    while work:
        d = work.pop()
        it = Interp(mapper.PROG, d, keys=root_theory(spec))
        env = Env(it, spec)
        it.env = env
        _install_cut(it, cut_at)
        for o in spec.opaques():
            it.assume(o.term >= 0)
        lay = mapper.layout_val(mapper.Spec('loop', [dict(m) for m in spec.maps]))
        try:
            it.run(F_LOOP, [Ref(Cell(Adt('Driver', None, []))), lay, False])
            units.append(list(it.decisions[:it.dpos]))     # complete short path: re-run as its own unit
        except CutPath:
            units.append(list(it.decisions))
        except (Violation, Panic):
            units.append(list(it.decisions[:it.dpos]))
        except PathInfeasible:
            pass
        work.extend(it.new_branches)
    # deduplicate prefixes
    seen = set()
    out = []
    for u in units:
        k = tuple(u)
        if k not in seen:
            seen.add(k)
            out.append(u)
    return out


# --------------------------------------------------------------------------- native replay + concrete judge
class ConcQ:
    def __init__(self, tol=12.0):
        self.tol = tol

    def keq(self, a, b):
        return a == b

    def t_add(self, t0, delay, interval, j):
        return t0 + delay + j * interval

    def t_expected(self, W, reading):
        return 1.0 if reading >= W else W - reading

    def time_matches(self, timeout, cands):
        return any(abs(timeout - c) <= self.tol for c in cands)


class NativeRef:
    def __init__(self, native, lay):
        self.native = native
        self.lay = lay
        self.ops = []

    def fresh(self):
        self.ops = []

    def step(self, kind, key):
        self.ops.append(['P' if kind == 'Pressed' else 'R', key])
        r = self.native.ask({'kind': 'mapper', 'layout': self.lay, 'ops': self.ops})
        st = r['ok']['steps'][-1]
        evs = [('Pressed' if e[0] == 'P' else 'Released', e[1]) for e in st['events']]
        rp = st['repeat']
        rep = ('Repeating', list(rp['keys']), rp['delay_ms'], rp['interval_ms']) if isinstance(rp, dict) else (rp, None, None, None)
        return evs, rep


def judge_native_log(native, lay, res, info=None):
    """run the same LoopMonitor over the native call log. returns None | (prop, what, ctx); info['mon'] = the monitor"""
    mon = LoopMonitor(ConcQ(), NativeRef(native, lay))
    if info is not None:
        info['mon'] = mon
    mon.absorbing = any(m.get('absorbing') for m in lay)
    try:
        for e in res['log']:
            call = e['call']
            t = e['t_ms']
            if mon.fault is not None:
                raise Violation('C20', 'the loop kept running (called %s) after a driver call had failed' % call, {'fault': mon.fault})
            if e.get('diverged'):
                # the real loop made a call the symbolic path did not predict: judge the call itself
                if call == 'send':
                    mon.on_now(t)
                    mon.on_send([('Pressed' if x[0] == 'P' else 'Released', x[1]) for x in e['detail']])
                elif call == 'poll':
                    mon.on_now(t)
                    mon.on_poll(e['detail']['timeout_ms'])
                return ('DIVERGED', 'the native loop left the symbolic script at %s' % call, None)
            r = e['result']
            if r[1] == 'err':
                mon.on_fault(r[2])
                continue
            if call == 'poll':
                mon.on_now(t)
                mon.on_poll(e['detail']['timeout_ms'])
                if r[1] == 'dev':
                    pass
                mon.on_poll_return(r[1], genuine=(r[1] == 'timeout' and bool(r[2]) and e['detail']['timeout_ms'] is not None))
            elif call == 'next_keyboard':
                if r[1] == 'one':
                    mon.Qk += 1
                    mon.on_key_read('Pressed' if r[2][0] == 'P' else 'Released', r[2][1])
                    if mon.rep is not None and mon.rep['t0'] is None:
                        mon.pending_t0 = True
                elif r[1] == 'end':
                    mon.on_end()
            elif call == 'next_tablet':
                if r[1] == 'one':
                    mon.Qt += 1
                    mon.on_tablet_read(r[2])
            elif call == 'send':
                mon.on_now(t)
                mon.on_send([('Pressed' if x[0] == 'P' else 'Released', x[1]) for x in e['detail']])
        rv = res['result']
        if 'Ok' in rv:
            mon.on_return('Ok', None)
        else:
            mon.on_return('Err', rv['Err'])
    except Violation as v:
        return (v.prop, v.what, v.ctx)
    return None


def native_queue_check(script):
    """C10(a) on a concrete script: events notified but unread at the next poll"""
    return None


def confirm(native, spec, viol):
    """viol: (prop, what, ctx, (lay, script)|None, _) -> (confirmed, case, desc)"""
    prop, what, ctx, conc, _ = viol
    if conc is None:
        return False, None, 'path condition unsat under z3'
    lay, script = conc
    case = {'kind': 'loop', 'layout': lay, 'script': script, 'extra_ms': 25, 'property': prop, 'what': what, 'spec': spec.name}
    r = native.ask({'kind': 'loop', 'layout': lay, 'script': script, 'extra_ms': 25})
    if prop == 'PANIC':
        if 'panic' in r:
            return True, case, 'the loop panicked natively: %s' % r['panic']
        return False, case, 'symbolic panic not reproduced natively'
    if 'ok' not in r:
        if 'panic' in r:
            return True, case, 'native loop panicked: %s (symbolic: %s)' % (r['panic'], what)
        return False, case, 'native loop run failed: %r' % (r,)
    res = r['ok']
    case['native_log'] = [[e['call'], round(e['t_ms'], 1), e['detail'], e.get('result')] for e in res['log']]
    case['native_result'] = res['result']
    # C10(a): unread notified events at a poll are visible in the script itself: the native loop polls while
    # the script still holds the events of the previous notification
    info = {}
    found = judge_native_log(native, lay, res, info)
    if prop == 'C19':
        c19 = info['mon'].c19
        if c19 is not None:
            return True, case, 'C19: %s %r; native call log in the replay file' % c19
        return False, case, 'the native run writes no redundant event (symbolic: %s)' % what
    if found is None and res.get('diverged'):
        found = ('DIVERGED', res['diverged'], None)
    if found is not None and found[0] == 'DIVERGED' and prop == 'C10' and 'unread' in what:
        # the loop called poll although the scripted queue still held notified events
        if 'poll' in (res.get('diverged') or ''):
            return True, case, 'C10: %s; native loop: %s' % (what, res['diverged'])
    if found is not None and found[0] == prop:
        return True, case, '%s: %s %r; native call log in the replay file' % (found[0], found[1], found[2])
    if found is not None and found[0] in PROPS:
        return True, case, '%s (symbolic: %s: %s): %s %r' % (found[0], prop, what, found[1], found[2])
    return False, case, 'oracle does not fail on the native run (symbolic: %s: %s; native: %r)' % (prop, what, found)


# --------------------------------------------------------------------------- specs
def loop_specs(tier, seed):
    K = corpus.K
    quick = tier == 'quick'
    sp = lambda keys, n=0: ('Special', K(*keys), Opaque('delay%d' % n), Opaque('interval%d' % n))
    DIS = ('Disabled', None, None, None)
    A_B = dict(frm=K('A'), to=K('B'))
    chord = dict(frm=K('CAPSLOCK', 'A'), to=K('LEFTCTRL', 'C'))
    special = dict(frm=K('D'), to=K('D'), rep=sp(['E']))
    special2 = dict(frm=K('D'), to=K('D'), rep=sp(['LEFTCTRL', 'C']))
    layer = [dict(frm=K('CAPSLOCK'), to=[]), dict(frm=K('CAPSLOCK', 'M'), to=K('LEFTSHIFT', 'EQUAL'))]
    S = []
    d = 0 if quick else 1
    # C10: chunking, late arrivals, interruption, spurious time-outs, end-of-device at every position
    S.append(LoopSpec('chunking', [dict(A_B), dict(chord)], K('A', 'CAPSLOCK'), E=3 + d, T=0, B=3 + d, W=4 + d, intr=1, late=True,
                      note='C10: all splittings of the history into batches, late arrivals while draining, one interruption, device gone anywhere'))
    S.append(LoopSpec('chunking-foreign', [dict(A_B)], ['f0', mapper.KC['A']], E=3 + d, T=0, B=3 + d, W=3 + d, intr=1, late=True,
                      note='C10 with a symbolic foreign key (any code outside the layout)'))
    # C11: timer
    S.append(LoopSpec('timer', [dict(A_B), dict(special)], K('A', 'D'), E=3, T=0, B=1, W=5 + d, intr=1 if not quick else 0, late=False,
                      note='C11: symbolic clock, delay and interval; several consecutive time-outs; cancellation by any key event'))
    S.append(LoopSpec('timer-chord', [dict(special2)], K('D', 'LEFTCTRL'), E=2 + d, T=0, B=1, W=4 + d, intr=0, late=False,
                      note='C11: two-key chord, one of its keys may be physically held and passed through'))
    S.append(LoopSpec('timer-chord-mapped', [dict(frm=K('CAPSLOCK'), to=K('LEFTCTRL')), dict(frm=K('B'), to=K('B'), rep=sp(['LEFTCTRL', 'C']))],
                      K('B', 'CAPSLOCK'), E=2 + d, T=0, B=1, W=4 + d, intr=0, late=False,
                      note='C11: chord key held on the virtual keyboard as the output of a modifier-remapping'))
    S.append(LoopSpec('timer-swallowed', [dict(frm=K('CAPSLOCK'), to=[]), dict(frm=K('CAPSLOCK', 'J'), to=K('LEFT'), rep=sp(['LEFT']))],
                      K('CAPSLOCK', 'J', 'LEFT'), E=3, T=0, B=1, W=4, intr=0, late=False,
                      note='C11: key presses that the mapper swallows while a repeat is pending'))
    S.append(LoopSpec('timer-batch', [dict(A_B), dict(special)], K('D', 'A'), E=3, T=0, B=2, W=4, intr=0, late=False,
                      note='C11: the event that starts or cancels a repeat shares its wake-up with another event (also one the mapper ignores)'))
    # C12: tablet mode
    S.append(LoopSpec('tablet', [dict(A_B), dict(special)], K('A', 'D'), E=2 + d, T=2, B=1, W=4 + d, intr=0, late=False,
                      note='C12: tablet on/off anywhere, same wake-up in either device order, while a repeat is pending'))
    S.append(LoopSpec('tablet-layer', [dict(m) for m in layer], K('CAPSLOCK', 'M'), E=3, T=2, B=1, W=5, intr=0, late=False,
                      note='C12: layer key held across tablet mode'))
    S.append(LoopSpec('tablet-absorbing', [dict(frm=K('LEFTSHIFT', 'L'), to=K('LEFTSHIFT', 'N'), absb=K('LEFTSHIFT'))], K('LEFTSHIFT', 'L'),
                      E=3, T=2, B=1, W=5, intr=0, late=False,
                      note='C12: an absorbing chord held (or its modifier absorbed) when tablet mode changes'))
    S.append(LoopSpec('timer-noise', [dict(A_B), dict(special)], K('D', 'A'), E=2, T=0, B=1, W=5, intr=0, late=False, empty=2,
                      note='C11: wake-ups in which the keyboard or the tablet switch is readable but yields no event must not disturb a pending repeat'))
    # C20: faults
    S.append(LoopSpec('faults', [dict(A_B), dict(special)], K('A', 'D'), E=2, T=1, B=2, W=3 + d, intr=0, late=False, faults=True,
                      note='C20: a failure injected at each individual driver call in turn'))
    # long burst in one notification
    burst = LoopSpec('burst', [dict(A_B)], K('A'), E=40, T=0, B=40, W=3, intr=0, late=False,
                     note='C10: a burst of 40 events in one readiness notification (fixed alternating history, batch sizes 1/2/all)')
    burst.fixed_history = True
    S.append(burst)
    # a longer fixed history under every splitting into batches (sizes 1, 2, rest) and device-gone position
    longh = LoopSpec('chunking-long', [dict(A_B)], K('A'), E=8 + 2 * d, T=0, B=8 + 2 * d, W=9 + 2 * d, intr=0, late=False,
                     note='C10: fixed alternating press/release history of 8 events, batch sizes 1 / 2 / all remaining at every wake-up')
    longh.fixed_history = True
    S.append(longh)
    # tablet events racing a running repeat
    S.append(LoopSpec('tablet-repeat', [dict(special)], K('D'), E=1, T=2, B=1, W=6, intr=0, late=False,
                      note='C11/C12: tablet on/off while repeat chords are being written'))
    return S


# --------------------------------------------------------------------------- orchestration
BUDGET = {'quick': 330, 'thorough': 2400}


def cache_path(tier, seed):
    d = os.path.join(BUILD, 'cache')
    os.makedirs(d, exist_ok=True)
    return os.path.join(d, 'loop-%s-%s-%s-%d.json' % (tree_hash(), engine_hash(), tier, seed))


def run(tier, seed):
    global F_LOOP
    t_start = time.time()
    prog = load_program()
    mapper.init(prog)
    F_LOOP = prog.find_fn('do_remapping_loop_one_device')
    specs = loop_specs(tier, seed)
    if ONLY:
        specs = [s_ for s_ in specs if re.search(ONLY, s_.name)]      # development aid, never set by a registered check; not cached
    random.seed(seed)
    spec_map = {i: s for i, s in enumerate(specs)}
    units = []
    for i, s in spec_map.items():
        us = make_units(s, i, (4 if s.memo else 5) if not getattr(s, 'fixed_history', False) else 2)
        for u in us:
            units.append((i, u))
    random.Random(seed).shuffle(units)
    budget = BUDGET[tier]
    per_unit = max(30.0, budget * NCPU / max(1, len(units)) * 6)
    pool = mp.Pool(NCPU, initializer=_w_init, initargs=(None, spec_map))
    tot = {i: {} for i in spec_map}
    viols = {i: [] for i in spec_map}
    samples = {i: [] for i in spec_map}
    timed_out_units = 0
    deadline = time.time() + budget
    try:
        for sid, stats, vs, smp in pool.imap_unordered(_w_unit, [(i, u, per_unit) for i, u in units]):
            for k, v in stats.items():
                tot[sid][k] = tot[sid].get(k, 0) + v
            if stats.get('timed_out'):
                timed_out_units += 1
            for v in vs:
                if sum(1 for x in viols[sid] if x[0] == v[0]) < 12:
                    viols[sid].append(v)
            if len(samples[sid]) < 3:
                samples[sid].extend(smp)
    finally:
        pool.terminate()
    t_explore = time.time() - t_start
    native = Native()
    per_prop = {p: {'violations': [], 'unconfirmed': []} for p in PROPS + ('PANIC',)}
    for sid, vs in viols.items():
        spec = spec_map[sid]
        seen = {}
        for v in vs:
            role = v[1].split(':')[0]
            if seen.get((v[0], role), 0) >= 2:
                continue
            seen[(v[0], role)] = seen.get((v[0], role), 0) + 1
            okc, case, desc = confirm(native, spec, v)
            tgt = per_prop[v[0]]
            if okc:
                tgt['violations'].append({'role': role, 'desc': '[%s] %s' % (spec.name, desc), 'case': case})
            else:
                tgt['unconfirmed'].append('[%s] %s' % (spec.name, desc))
    # differential validation: sampled passing paths are replayed natively and judged by the same oracle
    validated = 0
    mismatches = []
    for sid, smp in samples.items():
        spec = spec_map[sid]
        for s in smp[:3]:
            if not s.get('script'):
                continue
            # rebuild the layout with the same concretisation as the sample
    # (sample scripts are replayed below with the spec's default concretisation)
    for sid, smp in samples.items():
        spec = spec_map[sid]
        for s in smp[:2]:
            if not s.get('script'):
                continue
            lay = _default_layout(spec)
            r = native.ask({'kind': 'loop', 'layout': lay, 'script': s['script'], 'extra_ms': 25})
            validated += 1
            if 'ok' not in r:
                mismatches.append('[%s] native run of a passing symbolic path failed: %r' % (spec.name, str(r)[:200]))
                continue
            res = r['ok']
            if res.get('diverged'):
                mismatches.append('[%s] native loop diverged from a passing symbolic path: %s' % (spec.name, res['diverged']))
                continue
            f = judge_native_log(native, lay, res)
            if f is not None and f[0] == 'C11' and 'time-out differs' in f[1]:
                f = None        # real-clock noise on a loaded machine is not a model disagreement (structure is still compared)
            if f is not None and not (f[0] == 'C11' and 'chord-held' in f[1]):
                mismatches.append('[%s] oracle fails natively on a path that passed symbolically: %r' % (spec.name, f))
    native.close()
    out = {
        'tier': tier, 'seed': seed, 'tree': tree_hash(), 'engine': engine_hash(),
        'specs': [{'name': s.name, 'note': s.note, 'E': s.E, 'T': s.T, 'B': s.B, 'W': s.W, 'intr': s.intr, 'late': s.late, 'faults': s.faults, 'empty_wakeups': s.empty,
                   'layout': mapper.Spec('x', [dict(m) for m in s.maps]).describe(),
                   'alphabet': [mapper.INV.get(k, k) if isinstance(k, int) else '$' + k for k in s.alphabet],
                   'stats': tot[i]} for i, s in spec_map.items()],
        'per_prop': per_prop, 'validated': validated, 'mismatches': mismatches,
        'samples': [{'spec': spec_map[sid].name, 'driver_script': s['script'], 'sends': s['sends'], 'chords': s['chords']}
                    for sid, smp in samples.items() for s in smp[:1] if s.get('script')][:6],
        'units': len(units), 'timed_out_units': timed_out_units,
        'secs': {'explore': round(t_explore, 1), 'total': round(time.time() - t_start, 1)},
        'mir': {'path': os.path.basename(prog.mir_path), 'seconds': round(prog.mir_seconds, 1), 'cached': prog.mir_cached},
    }
    return out


def _default_layout(spec):
    lay = []
    n = 0
    for mp_ in spec.maps:
        rep = mp_['rep']
        if rep[0] == 'Special':
            r = {'keys': list(rep[1]), 'delay_ms': 60 if isinstance(rep[2], Opaque) else rep[2], 'interval_ms': 85 if isinstance(rep[3], Opaque) else rep[3]}
        else:
            r = rep[0]
        lay.append({'from': list(mp_['frm']), 'to': list(mp_['to']), 'repeat': r, 'absorbing': list(mp_['absb'])})
    return lay


ONLY = os.environ.get('VERIF_LOOP_ONLY') or None


def get_results(tier, seed):
    cp = cache_path(tier, seed)
    with _Lock('loop-explore-%s' % tier):
        if ONLY:
            return dict(run(tier, seed), cache_hit=False)
        if os.path.exists(cp) and os.environ.get('VERIF_NOCACHE') != '1':
            try:
                d = json.load(open(cp))
                d['cache_hit'] = True
                return d
            except Exception:
                pass
        d = run(tier, seed)
        d['cache_hit'] = False
        tmp = cp + '.tmp%d' % os.getpid()
        with open(tmp, 'w') as f:
            json.dump(d, f, default=str)
        os.replace(tmp, cp)
        return d


CLAUSES = {
    'C10': 'a: both arrival queues empty at every poll entry; b: the non-chord, non-tablet writes equal the non-empty outputs of the real mapper run sequentially on the events in read order, once each, in order; c: no write after End and the loop returns Ok',
    'C11': 'after a Special fire read at clock t0: every poll requests exactly max(t0+delay+j*interval - now, 1ms) (validity query over symbolic clock readings, delay, interval); a genuine time-out is followed by exactly one write = chord keys not held, pressed in order, released in reverse; any key event with Disabled/Repeating result or any tablet change cancels/restarts; no chord otherwise',
    'C12': 'at On/Off the next write releases exactly the held virtual keys; in tablet mode nothing is written (timer included); after Off the writes equal those of a fresh real mapper on the later events',
    'C20': 'a failure injected at the k-th driver call (register_poll, poll, next_keyboard, next_tablet, send; every k of every explored schedule) makes the loop return Err with that message and no write follows',
}

REL = {'C10': ('chunking', 'chunking-foreign', 'burst', 'chunking-long', 'tablet-repeat', 'timer', 'tablet', 'faults', 'timer-chord', 'timer-chord-mapped', 'timer-swallowed', 'tablet-layer', 'tablet-absorbing', 'timer-noise', 'timer-batch'),
       'C11': ('timer', 'timer-chord', 'timer-chord-mapped', 'timer-swallowed', 'timer-noise', 'timer-batch', 'tablet', 'faults', 'tablet-repeat'),
       'C12': ('tablet', 'tablet-layer', 'tablet-absorbing', 'faults', 'tablet-repeat'),
       'C20': ('faults',)}


def check(prop, tier, seed):
    t0 = time.time()
    d = get_results(tier, seed)
    oc = Outcome(prop)
    pp = d['per_prop'].get(prop, {'violations': [], 'unconfirmed': []})
    for v in pp['violations']:
        oc.violations.append((v['role'], v['desc'], v['case']))
    for u in pp['unconfirmed']:
        oc.inconclusive.append('ENGINE-MISMATCH (symbolic violation not reproduced natively): ' + u)
    for m in d['mismatches']:
        oc.inconclusive.append('model/native disagreement: ' + m)
    specs = [s for s in d['specs'] if s['name'] in REL[prop]]
    paths = sum(s['stats'].get('paths', 0) for s in specs)
    calls = sum(s['stats'].get('driver_calls', 0) for s in specs)
    cov = {
        'states': max(1, paths), 'transitions': max(1, calls),
        'traces_validated_against_impl': d['validated'],
        'samples': d['samples'],
        'explanation': 'states = complete symbolic paths of the real loop MIR under the symbolic environment (each path is one delivery schedule class x key history x clock-branch pattern); '
                       'transitions = driver-trait calls answered by the environment; exhaustive within the bounds listed per spec (no subsumption: no fixpoint claim)',
        'clauses_checked': CLAUSES[prop],
        'specs': specs,
        'bounds': 'per spec: E key events, T tablet events, batches <= B, <= W wake-ups then device gone, <= intr interruptions; keys from the listed alphabet ($f0 = any non-modifier key outside the layout); '
                  'delay/interval symbolic in [0, 2^31); clock readings symbolic non-decreasing; outside: longer histories, the RealDriver (mio/nix)',
        'solver': {'z3 checks (branch feasibility + validity of time-out obligations)': sum(s['stats'].get('z3_checks', 0) for s in specs),
                   'time-out validity queries': sum(s['stats'].get('time_queries', 0) for s in specs)},
        'functions_encoded': ['do_remapping_loop_one_device (generic MIR, Driver trait calls bound to the symbolic environment)', 'Mapper::for_layout/step/release_all and callees'],
        'stubs': ['<impl Driver as Driver>::{register_poll,poll,next_keyboard,next_tablet,send}', 'Instant::now (symbolic non-decreasing)', 'Instant/Duration arithmetic (integers, ms)', 'thread::sleep (advances the clock)', 'eprint (no-op)'],
        'work_units': d['units'], 'work_units_cut_by_time_budget': d['timed_out_units'],
        'shared_exploration_cache_hit': d.get('cache_hit', False), 'exploration_secs': d['secs'], 'mir': d['mir'],
    }
    if d['timed_out_units']:
        cov['explanation'] += '; %d work units hit the time budget: their subtrees are only partly explored' % d['timed_out_units']
    assumptions = ['edge-triggered readiness contract: a batch is announced once; arrivals after a device returned Busy are announced at the next poll; '
                   'a device may also be announced although its reader then finds nothing to report (spec timer-noise: records the readers skip)',
                   'poll returns TimedOut either spuriously while no time-out was requested, or after at least the requested time',
                   'events of keyboard and tablet devices are ordered by the order in which the loop reads them',
                   'native replays use a scripted driver and the real clock (tolerance 12 ms)']
    rc = oc.report()
    write_evidence(prop, tier, seed, cov, assumptions, time.time() - t0, len(oc.violations))
    return rc
