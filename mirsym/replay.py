"""./check <ID> --replay <file>: re-run a recorded counterexample against the natively compiled current tree and
judge the real outputs with the property's concrete oracle."""
import json

from .frontend import Native, load_program


def replay(prop, path):
    case = json.load(open(path))
    kind = case.get('kind')
    native = Native()
    try:
        verdict = _judge(prop, kind, case, native)
    finally:
        native.close()
    if verdict:
        print('VIOLATION property=%s replay=%s' % (prop, path))
        print('  ' + verdict)
        return 1
    print('replay %s: the recorded counterexample no longer violates %s on the current tree' % (path, prop))
    return 0


def _judge(prop, kind, case, native):
    if kind == 'mapper':
        from . import mapper
        mapper.init(load_program())
        r = native.ask({'kind': 'mapper', 'layout': case['layout'], 'ops': case['ops']})
        if 'panic' in r:
            return 'the mapper panics: ' + r['panic']
        if 'ok' not in r:
            return None
        steps = r['ok']['steps']
        if prop == 'C06' and 'fresh_steps' in case:
            n1 = len(case['ops']) - len(case['fresh_steps'])
            r2 = native.ask({'kind': 'mapper', 'layout': case['layout'], 'ops': case['ops'][n1:]})
            for a, b in zip(steps[n1:], r2['ok']['steps']):
                if a != b:
                    return 'after the recorded history the mapper answers %r, a fresh mapper %r' % (a, b)
            return None
        for p, w, cx in mapper.judge_native(case['layout'], case['ops'], steps):
            if p == prop:
                return '%s at %r; native outputs %r' % (w, cx, [s['events'] for s in steps])
        return None
    if kind == 'loop':
        from . import mapper, loopcheck
        mapper.init(load_program())
        r = native.ask({'kind': 'loop', 'layout': case['layout'], 'script': case['script'], 'extra_ms': case.get('extra_ms', 25)})
        if 'panic' in r:
            return 'the loop panics: ' + r['panic']
        if 'ok' not in r:
            return None
        info = {}
        f = loopcheck.judge_native_log(native, case['layout'], r['ok'], info)
        if prop == 'C19':
            c19 = info['mon'].c19
            return None if c19 is None else '%s %r' % c19
        if f is not None and f[0] in (prop, 'DIVERGED'):
            return '%s %r' % (f[1], f[2])
        return None
    if kind == 'service_text':
        from . import esccheck
        r = native.ask(case)
        if 'panic' in r:
            return 'panic: ' + r['panic']
        j = esccheck.judge_concrete(case['excludes'], r['ok']['text'])
        return None if j is None else '%s for %r' % (j, case['excludes'])
    if kind in ('uinput_write', 'uinput_read'):
        from . import mapper, iocheck
        mapper.init(load_program())
        okc, desc = iocheck.native_confirm(native, case)
        return desc if okc else None
    if kind == 'save_reload':
        r = native.ask({'kind': 'save_reload', 'layout': case['layout']})
        if 'panic' in r:
            return 'panic: ' + r['panic']
        if 'ok' in r and r['ok'].get('same') is False:
            return 'reloads as %r' % (r['ok'].get('reloaded', r['ok'].get('rejected')),)
        return None
    if kind in ('load_value', 'load_and_install'):
        r = native.ask({'kind': 'load_and_install' if prop == 'C14' else 'load_value', 'value': case['value']})
        if 'panic' in r:
            return 'panic: ' + r['panic']
        if prop == 'C13' and 'ok' in r:
            from . import convcheck, mapper
            prog = load_program()
            convcheck.setup(prog, native)
            try:
                ref = convcheck.names_to_codes(convcheck.ref_expand(case['value']))
            except convcheck.RefReject:
                ref = None
            if 'rejected' in r['ok']:
                return 'rejected: %s' % r['ok']['rejected'] if ref is not None else None
            return convcheck.compare_blocks(r['ok']['layout'], ref) if ref is not None else 'accepted although the reference rejects it'
        return None
    if 'entries' in case:
        from . import kbdcheck
        return kbdcheck.native_judge(native, case)
    return None
