"""Models of std / dependency entry points that are not in the crate's MIR.

Every model is pure and follows the documented semantics of the std API. The set is wider
than what the code uses today so that an equivalent refactoring does not make a check
inconclusive. Environment stubs (Driver, clock, read/write, fs) are bound per harness via
`interp.env` (see envs in the harness modules).
"""
import re

import z3

from .values import (Cell, Ref, Adt, VecV, MapV, IterV, EnumC, Sym, Opaque, UNINIT, UNIT,
                     Panic, Unsupported, clone_val, some, none, ok, err)
from .program import strip_generics

_REGISTRY = []      # (compiled regex on full name, handler)
_EXACT = {}         # generics-stripped name -> handler
_CACHE = {}


def model(*patterns, exact=()):
    def deco(fn):
        for p in patterns:
            _REGISTRY.append((re.compile(p), fn))
        for e in exact:
            _EXACT[e] = fn
        return fn
    return deco


def _meth(name):
    return strip_generics(name).split('::')[-1]


def dispatch(it, name, a, fn):
    h = _CACHE.get(name)
    if h is None:
        n = strip_generics(name)
        h = _EXACT.get(n)
        if h is None:
            for rx, cand in _REGISTRY:
                if rx.fullmatch(name) or rx.fullmatch(n):
                    h = cand
                    break
        if h is None:
            if it.env is not None and hasattr(it.env, 'call_unknown'):
                return it.env.call_unknown(it, name, a)
            raise Unsupported('no model for callee ' + name)
        _CACHE[name] = h
    it.models_hit.add(h.__name__)
    return h(it, name, a)


# --------------------------------------------------------------------------- helpers
def D(it, x):
    return it.deref(x)


def vec_of(it, r):
    v = it.deref(r)
    if not isinstance(v, VecV):
        raise Unsupported('expected a sequence, got %r' % (v,))
    return v


def elem_ref(r, i):
    return Ref(r.cell, r.path + (('i', i),))


def innermost_ref(it, r):
    """follow &&T down to the reference that points at the value itself"""
    while isinstance(r, Ref):
        inner = it.read(r.cell, r.path)
        if isinstance(inner, Ref):
            r = inner
        else:
            return r
    raise Unsupported('not a reference: %r' % (r,))


def neg(r):
    return (not r) if isinstance(r, bool) else z3.Not(r)


def call_pred(it, clo_cell_ref, args):
    return it.decide(it.call_closure_ref(clo_cell_ref, args))


def as_callable_ref(it, c):
    """closures passed by value: keep them in a cell so that FnMut state persists across calls"""
    if isinstance(c, Ref):
        return c
    return Ref(Cell(c))


def iter_of(it, x):
    """IntoIterator for the values we model"""
    x0 = x
    if isinstance(x, Ref):
        tgt = it.deref(x)
        if isinstance(tgt, IterV):
            return tgt
        if isinstance(tgt, VecV):
            r = innermost_ref(it, x)
            return IterV('slice', r, 0, len(tgt.items))
        if isinstance(tgt, MapV):
            return IterV('owned', [Adt('()', None, [Ref(Cell(k)), Ref(c)]) for k, c in tgt.entries], 0)
        if isinstance(tgt, Adt) and tgt.ty in ('Range', 'RangeInclusive'):
            return tgt
        x = tgt
    if isinstance(x, IterV):
        return x
    if isinstance(x, VecV):
        return IterV('owned', list(x.items), 0)
    if isinstance(x, MapV):
        return IterV('owned', [Adt('()', None, [k, c.v]) for k, c in x.entries], 0)
    if isinstance(x, Adt) and x.ty in ('Range', 'RangeInclusive', 'Option'):
        return x
    if isinstance(x, str):
        raise Unsupported('iteration over str')
    if isinstance(x, Adt) and it.p.by_method.get((x.ty, 'next')):
        return x0      # an iterator type defined in the crate: IntoIterator is the identity
    raise Unsupported('into_iter of %r' % (x0,))


def iter_next(it, itv, back=False):
    ref0 = itv if isinstance(itv, Ref) else None
    if isinstance(itv, Ref):
        itv = it.deref(itv)
    if isinstance(itv, Adt) and itv.ty not in ('Range', 'RangeInclusive', 'Option') and it.p.by_method.get((itv.ty, 'next')):
        f = it.p.method(itv.ty, 'next')
        r = innermost_ref(it, ref0) if ref0 is not None else Ref(Cell(itv))
        return it.run(f, [r])
    if isinstance(itv, Adt):
        if itv.ty == 'Range':
            s, e = itv.f
            if not (isinstance(s, int) and isinstance(e, int)):
                if not it.decide(it.binop('Lt', s, e, 'usize')):
                    return none()
                if back:
                    itv.f[1] = it.binop('Sub', e, 1, 'usize')
                    return some(itv.f[1])
                itv.f[0] = it.binop('Add', s, 1, 'usize')
                return some(s)
            if s >= e:
                return none()
            if back:
                itv.f[1] = e - 1
                return some(e - 1)
            itv.f[0] = s + 1
            return some(s)
        if itv.ty == 'RangeInclusive':
            s, e, ex = itv.f
            if ex or s > e:
                return none()
            if s == e:
                itv.f[2] = True
                return some(s)
            if back:
                itv.f[1] = e - 1
                return some(e)
            itv.f[0] = s + 1
            return some(s)
        if itv.ty == 'Option':
            if itv.variant == 'None':
                return none()
            v = itv.f[0]
            itv.variant = 'None'
            itv.f = []
            return some(v)
        raise Unsupported('next on %r' % (itv,))
    k = itv.kind
    if k == 'rev':
        return iter_next(it, itv.a, not back)
    if k == 'slice':
        if itv.b >= itv.c:
            return none()
        if back:
            itv.c -= 1
            i = itv.c
        else:
            i = itv.b
            itv.b += 1
        return some(elem_ref(itv.a, i))
    if k == 'owned':
        if itv.c is None:
            itv.c = len(itv.a)
        if itv.b >= itv.c:
            return none()
        if back:
            itv.c -= 1
            return some(itv.a[itv.c])
        x = itv.a[itv.b]
        itv.b += 1
        return some(x)
    if k == 'map':
        x = iter_next(it, itv.a, back)
        if x.variant == 'None':
            return x
        return some(it.call_closure_ref(itv.b, [x.f[0]]))
    if k == 'filter':
        while True:
            x = iter_next(it, itv.a, back)
            if x.variant == 'None':
                return x
            if it.decide(it.call_closure_ref(itv.b, [Ref(Cell(x.f[0]))])):
                return x
    if k == 'filter_map':
        while True:
            x = iter_next(it, itv.a, back)
            if x.variant == 'None':
                return x
            r = it.call_closure_ref(itv.b, [x.f[0]])
            if r.variant == 'Some':
                return r
    if k == 'chain':
        if back:
            x = iter_next(it, itv.b, True)
            if x.variant != 'None':
                return x
            return iter_next(it, itv.a, True)
        x = iter_next(it, itv.a, False)
        if x.variant != 'None':
            return x
        return iter_next(it, itv.b, False)
    if k == 'enumerate':
        x = iter_next(it, itv.a, False)
        if x.variant == 'None':
            return x
        i = itv.b
        itv.b += 1
        return some(Adt('()', None, [i, x.f[0]]))
    if k == 'zip':
        x = iter_next(it, itv.a, False)
        if x.variant == 'None':
            return x
        y = iter_next(it, itv.b, False)
        if y.variant == 'None':
            return y
        return some(Adt('()', None, [x.f[0], y.f[0]]))
    if k in ('cloned', 'copied'):
        x = iter_next(it, itv.a, back)
        if x.variant == 'None':
            return x
        return some(clone_val(it.deref(x.f[0])))
    if k == 'skip':
        while itv.b > 0:
            itv.b -= 1
            if iter_next(it, itv.a, False).variant == 'None':
                return none()
        return iter_next(it, itv.a, back)
    if k == 'take':
        if itv.b <= 0:
            return none()
        itv.b -= 1
        return iter_next(it, itv.a, False)
    if k == 'take_while':
        if itv.c:
            return none()
        x = iter_next(it, itv.a, back)
        if x.variant == 'None':
            return x
        if it.decide(it.call_closure_ref(itv.b, [Ref(Cell(x.f[0]))])):
            return x
        itv.c = True
        return none()
    if k == 'skip_while':
        while True:
            x = iter_next(it, itv.a, back)
            if x.variant == 'None':
                return x
            if itv.c:
                return x
            if not it.decide(it.call_closure_ref(itv.b, [Ref(Cell(x.f[0]))])):
                itv.c = True
                return x
    if k == 'step_by':
        x = iter_next(it, itv.a, back)
        if x.variant == 'None':
            return x
        for _ in range(itv.b - 1):
            if iter_next(it, itv.a, back).variant == 'None':
                break
        return x
    if k == 'inspect':
        x = iter_next(it, itv.a, back)
        if x.variant != 'None':
            it.call_closure_ref(itv.b, [Ref(Cell(x.f[0]))])
        return x
    if k == 'peekable':
        if itv.b is not None:
            x = itv.b
            itv.b = None
            return x
        return iter_next(it, itv.a, False)
    if k == 'flat_map':
        while True:
            if itv.c is not None:
                x = iter_next(it, itv.c, False)
                if x.variant != 'None':
                    return x
                itv.c = None
            o = iter_next(it, itv.a, False)
            if o.variant == 'None':
                return o
            itv.c = iter_of(it, it.call_closure_ref(itv.b, [o.f[0]]) if itv.b is not None else o.f[0])
    raise Unsupported('iterator kind ' + k)


def drain_iter(it, itv):
    out = []
    while True:
        x = iter_next(it, itv, False)
        if x.variant == 'None':
            return out
        out.append(x.f[0])


def to_str(it, x):
    v = it.deref(x)
    if isinstance(v, str):
        return v
    from .symstr import SStr
    if isinstance(v, SStr):
        return v
    raise Unsupported('expected a string, got %r' % (v,))


# --------------------------------------------------------------------------- panics
@model(r'std::rt::begin_panic.*', r'core::panicking::.*', r'std::rt::panic_fmt', r'core::panic.*', r'std::panicking::.*',
       r'core::option::expect_failed', r'core::result::unwrap_failed', r'core::option::unwrap_failed',
       r'core::slice::index::slice_.*_fail.*', r'core::str::slice_error_fail')
def m_panic(it, name, a):
    msg = ''
    if a:
        v = a[0]
        try:
            v = it.deref(v)
        except Exception:
            pass
        if isinstance(v, str):
            msg = v
        elif isinstance(v, Adt) and v.ty == 'FmtArgs':
            from .fmtmodel import render
            try:
                msg = render(it, v)
                if not isinstance(msg, str):
                    msg = '<symbolic message>'
            except Exception:
                msg = '<fmt>'
    raise Panic('%s: %s' % (strip_generics(name).split('::')[-1], msg))


# --------------------------------------------------------------------------- Try / Option / Result
@model(r'<.* as Try>::branch')
def m_try_branch(it, name, a):
    v = a[0]
    if v.variant in ('Ok', 'Some'):
        return Adt('ControlFlow', 'Continue', [v.f[0]])
    return Adt('ControlFlow', 'Break', [Adt(v.ty, v.variant, list(v.f))])


@model(r'<.* as FromResidual<.*>>::from_residual', r'<.* as FromResidual>::from_residual')
def m_from_residual(it, name, a):
    v = a[0]
    if v.variant == 'None':
        return none()
    # Result<_, E> -> Result<_, F> with From<E> for F: identity for the String/io::Error cases used here
    return Adt('Result', 'Err', list(v.f))


@model(exact=('std::option::Option::unwrap', 'Result::unwrap', 'Option::unwrap', 'std::result::Result::unwrap'))
def m_unwrap(it, name, a):
    if a[0].variant in ('Some', 'Ok'):
        return a[0].f[0]
    raise Panic('unwrap on ' + a[0].variant)


@model(exact=('std::option::Option::expect', 'Result::expect', 'Option::expect', 'std::result::Result::expect'))
def m_expect(it, name, a):
    if a[0].variant in ('Some', 'Ok'):
        return a[0].f[0]
    raise Panic('expect failed: %r' % (it.deref(a[1]),))


@model(exact=('std::option::Option::unwrap_or', 'Option::unwrap_or', 'Result::unwrap_or'))
def m_unwrap_or(it, name, a):
    return a[0].f[0] if a[0].variant in ('Some', 'Ok') else a[1]


@model(exact=('std::option::Option::unwrap_or_else', 'Option::unwrap_or_else', 'Result::unwrap_or_else'))
def m_unwrap_or_else(it, name, a):
    if a[0].variant in ('Some', 'Ok'):
        return a[0].f[0]
    return it.call_callable(a[1], list(a[0].f))


@model(exact=('std::option::Option::unwrap_or_default', 'Option::unwrap_or_default'))
def m_unwrap_or_default(it, name, a):
    if a[0].variant == 'Some':
        return a[0].f[0]
    raise Unsupported('unwrap_or_default')


@model(exact=('std::option::Option::ok_or', 'Option::ok_or'))
def m_ok_or(it, name, a):
    return ok(a[0].f[0]) if a[0].variant == 'Some' else err(a[1])


@model(exact=('std::option::Option::ok_or_else', 'Option::ok_or_else'))
def m_ok_or_else(it, name, a):
    return ok(a[0].f[0]) if a[0].variant == 'Some' else err(it.call_callable(a[1], []))


@model(exact=('Result::ok', 'std::result::Result::ok'))
def m_res_ok(it, name, a):
    return some(a[0].f[0]) if a[0].variant == 'Ok' else none()


@model(exact=('Result::err', 'std::result::Result::err'))
def m_res_err(it, name, a):
    return some(a[0].f[0]) if a[0].variant == 'Err' else none()


@model(exact=('Result::map_err', 'std::result::Result::map_err'))
def m_map_err(it, name, a):
    if a[0].variant == 'Ok':
        return a[0]
    return err(it.call_callable(a[1], [a[0].f[0]]))


@model(exact=('Result::map', 'std::result::Result::map', 'std::option::Option::map', 'Option::map'))
def m_map_opt(it, name, a):
    if a[0].variant in ('Ok', 'Some'):
        return Adt(a[0].ty, a[0].variant, [it.call_callable(a[1], [a[0].f[0]])])
    return a[0]


@model(exact=('Result::and_then', 'std::option::Option::and_then', 'Option::and_then'))
def m_and_then(it, name, a):
    if a[0].variant in ('Ok', 'Some'):
        return it.call_callable(a[1], [a[0].f[0]])
    return a[0]


@model(exact=('Result::and', 'std::result::Result::and', 'std::option::Option::and', 'Option::and'))
def m_res_and(it, name, a):
    return a[1] if a[0].variant in ('Ok', 'Some') else a[0]


@model(exact=('Result::or', 'std::result::Result::or'))
def m_res_or(it, name, a):
    return a[0] if a[0].variant == 'Ok' else a[1]


@model(exact=('Result::or_else', 'std::result::Result::or_else', 'std::option::Option::or_else', 'Option::or_else'))
def m_res_or_else(it, name, a):
    if a[0].variant in ('Ok', 'Some'):
        return a[0]
    return it.call_callable(a[1], list(a[0].f))


@model(exact=('Result::unwrap_err', 'Result::expect_err'))
def m_unwrap_err(it, name, a):
    if a[0].variant == 'Err':
        return a[0].f[0]
    raise Panic('unwrap_err on Ok')


@model(exact=('std::option::Option::map_or', 'Option::map_or', 'Result::map_or'))
def m_map_or(it, name, a):
    if a[0].variant in ('Some', 'Ok'):
        return it.call_callable(a[2], [a[0].f[0]])
    return a[1]


@model(exact=('std::option::Option::map_or_else', 'Option::map_or_else', 'Result::map_or_else'))
def m_map_or_else(it, name, a):
    if a[0].variant in ('Some', 'Ok'):
        return it.call_callable(a[2], [a[0].f[0]])
    return it.call_callable(a[1], list(a[0].f) if a[0].variant == 'Err' else [])


@model(exact=('std::option::Option::is_some_and', 'Option::is_some_and', 'Result::is_ok_and'))
def m_is_some_and(it, name, a):
    return a[0].variant in ('Some', 'Ok') and it.decide(it.call_callable(a[1], [a[0].f[0]]))


@model(exact=('std::option::Option::get_or_insert_with', 'Option::get_or_insert_with', 'std::option::Option::insert', 'Option::insert', 'std::option::Option::replace', 'Option::replace'))
def m_opt_insert(it, name, a):
    r = innermost_ref(it, a[0])
    cur = it.read(r.cell, r.path)
    op = _meth(name)
    if op == 'replace':
        it.write(r.cell, r.path, some(a[1]))
        return cur
    if op == 'insert' or cur.variant == 'None':
        v = a[1] if op == 'insert' else it.call_callable(a[1], [])
        it.write(r.cell, r.path, some(v))
    return Ref(r.cell, r.path + (('f', 0),))


@model(r'core::slice::<impl \[.*\]>::split_(last|first)(_mut)?')
def m_split_last(it, name, a):
    r = innermost_ref(it, a[0])
    v = it.read(r.cell, r.path).items
    if not v:
        return none()
    if 'split_last' in _meth(name):
        return some(Adt('()', None, [elem_ref(r, len(v) - 1), Ref(Cell(VecV(list(v[:-1]))))]))
    return some(Adt('()', None, [elem_ref(r, 0), Ref(Cell(VecV(list(v[1:]))))]))


@model(r'core::slice::<impl \[.*\]>::split_at')
def m_split_at(it, name, a):
    v = vec_of(it, a[0]).items
    if a[1] > len(v):
        raise Panic('split_at: mid > len')
    return Adt('()', None, [Ref(Cell(VecV(list(v[:a[1]])))), Ref(Cell(VecV(list(v[a[1]:]))))])


@model(r'core::slice::<impl \[.*\]>::(chunks|windows)')
def m_chunks(it, name, a):
    v = vec_of(it, a[0]).items
    n = a[1]
    if n == 0:
        raise Panic('chunk size must be non-zero')
    if _meth(name) == 'chunks':
        parts = [v[i:i + n] for i in range(0, len(v), n)]
    else:
        parts = [v[i:i + n] for i in range(0, max(0, len(v) - n + 1))]
    return IterV('owned', [Ref(Cell(VecV(list(p)))) for p in parts], 0)


@model(r'core::slice::<impl \[.*\]>::iter\(\)', r'core::slice::<impl \[.*\]>::to_owned')
def m_slice_misc(it, name, a):
    return clone_val(vec_of(it, a[0]))


@model(exact=('std::option::Option::is_some', 'Option::is_some', 'Result::is_ok'))
def m_is_some(it, name, a):
    return D(it, a[0]).variant in ('Some', 'Ok')


@model(exact=('std::option::Option::is_none', 'Option::is_none', 'Result::is_err'))
def m_is_none(it, name, a):
    return D(it, a[0]).variant in ('None', 'Err')


@model(exact=('std::option::Option::as_ref', 'Option::as_ref', 'std::option::Option::as_mut', 'Option::as_mut',
              'Result::as_ref', 'Result::as_mut'))
def m_as_ref(it, name, a):
    v = D(it, a[0])
    r = innermost_ref(it, a[0])
    if v.variant in ('Some', 'Ok', 'Err'):
        return Adt(v.ty, v.variant, [Ref(r.cell, r.path + (('f', 0),))])
    return none()


@model(exact=('std::option::Option::take', 'Option::take'))
def m_opt_take(it, name, a):
    r = innermost_ref(it, a[0])
    v = it.read(r.cell, r.path)
    it.write(r.cell, r.path, none())
    return v


@model(exact=('std::option::Option::cloned', 'Option::cloned', 'std::option::Option::copied', 'Option::copied'))
def m_opt_cloned(it, name, a):
    if a[0].variant == 'Some':
        return some(clone_val(D(it, a[0].f[0])))
    return none()


@model(exact=('std::option::Option::or', 'Option::or'))
def m_opt_or(it, name, a):
    return a[0] if a[0].variant == 'Some' else a[1]


@model(exact=('std::option::Option::filter',))
def m_opt_filter(it, name, a):
    if a[0].variant == 'Some' and it.decide(it.call_callable(a[1], [Ref(Cell(a[0].f[0]))])):
        return a[0]
    return none()


@model(exact=('std::mem::take', 'core::mem::take'))
def m_mem_take(it, name, a):
    r = innermost_ref(it, a[0])
    v = it.read(r.cell, r.path)
    if isinstance(v, VecV):
        d = VecV([])
    elif isinstance(v, str):
        d = ''
    elif isinstance(v, MapV):
        d = MapV(v.kind)
    elif isinstance(v, Adt) and v.ty == 'Option':
        d = none()
    elif isinstance(v, bool):
        d = False
    elif isinstance(v, int):
        d = 0
    else:
        raise Unsupported('mem::take of %r' % (v,))
    it.write(r.cell, r.path, d)
    return v


@model(exact=('std::mem::replace', 'core::mem::replace'))
def m_mem_replace(it, name, a):
    r = innermost_ref(it, a[0])
    v = it.read(r.cell, r.path)
    it.write(r.cell, r.path, a[1])
    return v


@model(exact=('std::mem::swap', 'core::mem::swap'))
def m_mem_swap(it, name, a):
    r1 = innermost_ref(it, a[0])
    r2 = innermost_ref(it, a[1])
    v1 = it.read(r1.cell, r1.path)
    v2 = it.read(r2.cell, r2.path)
    it.write(r1.cell, r1.path, v2)
    it.write(r2.cell, r2.path, v1)
    return UNIT


@model(exact=('std::mem::drop', 'core::mem::drop', 'std::mem::forget'))
def m_drop(it, name, a):
    return UNIT


@model(exact=('must_use', 'std::hint::must_use', 'core::hint::must_use', 'std::convert::identity'))
def m_identity(it, name, a):
    return a[0]


@model(r'<.* as Into<.*>>::into', r'<.* as From<.*>>::from')
def m_into(it, name, a):
    n = strip_generics(name)
    v = a[0]
    if isinstance(v, str) or isinstance(v, (int, bool)) or z3.is_expr(v):
        m = re.fullmatch(r'<(\w+) as From<(\w+)>>::from', n)
        dst, src = (m.group(1), m.group(2)) if m else (None, None)
        if not m:
            m = re.fullmatch(r'<(\w+) as Into<(\w+)>>::into', n)
            if m:
                src, dst = m.group(1), m.group(2)
        if m and dst != src and not isinstance(v, str):
            from .interp import INT_BITS
            if dst in INT_BITS and src in INT_BITS:
                return it.cast(v, src, dst, 'IntToInt')
        return v
    if isinstance(v, Ref) and isinstance(it.deref(v), str):
        return it.deref(v)
    if isinstance(v, (VecV, Adt, EnumC)):
        return v
    raise Unsupported('conversion ' + name)


@model(r'<.* as Default>::default')
def m_default(it, name, a):
    n = strip_generics(name)
    m = re.fullmatch(r'<(.*) as Default>::default', n)
    ty = m.group(1)
    if ty.startswith('Vec'):
        return VecV([])
    if ty.endswith('String'):
        return ''
    if ty.startswith(('HashMap', 'HashSet', 'std::collections::HashMap', 'std::collections::HashSet')):
        return MapV()
    if ty.startswith('Option') or ty.startswith('std::option::Option'):
        return none()
    if ty == 'bool':
        return False
    from .interp import INT_BITS
    if ty in INT_BITS:
        return 0
    raise Unsupported('Default for ' + ty)


# --------------------------------------------------------------------------- Box / vec! lowering
@model(r'Box::<.*>::new_uninit', r'Box::<.*>::new_uninit_in')
def m_box_new_uninit(it, name, a):
    return Adt('Box', None, [Ref(Cell(UNINIT))])


@model(r'std::boxed::box_assume_init_into_vec_unsafe.*', r'alloc::boxed::box_assume_init_into_vec_unsafe.*')
def m_box_into_vec(it, name, a):
    v = a[0]
    while isinstance(v, Adt) and v.ty in ('Box', 'Unique', 'NonNull') and len(v.f) == 1:
        v = v.f[0]
    v = it.deref(v)
    if not isinstance(v, VecV):
        raise Unsupported('box_assume_init_into_vec_unsafe on %r' % (v,))
    return v


@model(r'Box::<.*>::new', exact=('Box::new',))
def m_box_new(it, name, a):
    return Adt('Box', None, [Ref(Cell(a[0]))])


@model(r'core::slice::<impl \[.*\]>::into_vec.*', r'slice::<impl \[.*\]>::into_vec.*', r'std::slice::<impl \[.*\]>::into_vec.*')
def m_into_vec(it, name, a):
    v = a[0]
    while isinstance(v, Adt) and v.ty in ('Box', 'Unique', 'NonNull') and len(v.f) == 1:
        v = v.f[0]
    return it.deref(v)


@model(r'<Box<.*> as Deref(Mut)?>::deref(_mut)?')
def m_box_deref(it, name, a):
    b = it.deref(a[0])
    return b.f[0]


# --------------------------------------------------------------------------- Vec / slices
@model(r'Vec::<.*>::new', r'Vec::<.*>::with_capacity', exact=('Vec::new', 'Vec::with_capacity'))
def m_vec_new(it, name, a):
    return VecV([])


@model(exact=('Vec::len', 'core::slice::<impl [T]>::len'), *[r'core::slice::<impl \[.*\]>::len'])
def m_vec_len(it, name, a):
    return len(vec_of(it, a[0]).items)


@model(r'core::slice::<impl \[.*\]>::is_empty', exact=('Vec::is_empty',))
def m_vec_is_empty(it, name, a):
    return len(vec_of(it, a[0]).items) == 0


@model(exact=('Vec::push',))
def m_vec_push(it, name, a):
    vec_of(it, a[0]).items.append(a[1])
    return UNIT


@model(exact=('Vec::pop',))
def m_vec_pop(it, name, a):
    v = vec_of(it, a[0])
    return some(v.items.pop()) if v.items else none()


@model(exact=('Vec::append',))
def m_vec_append(it, name, a):
    dst, src = vec_of(it, a[0]), vec_of(it, a[1])
    dst.items.extend(src.items)
    src.items = []
    return UNIT


@model(exact=('Vec::remove',))
def m_vec_remove(it, name, a):
    v = vec_of(it, a[0])
    i = a[1]
    if not isinstance(i, int):
        i = it.concretize_index(i, *_cellpath(it, a[0]))
    if i >= len(v.items):
        raise Panic('Vec::remove index out of bounds')
    return v.items.pop(i)


@model(exact=('Vec::swap_remove',))
def m_vec_swap_remove(it, name, a):
    v = vec_of(it, a[0])
    i = a[1]
    if i >= len(v.items):
        raise Panic('Vec::swap_remove index out of bounds')
    x = v.items[i]
    last = v.items.pop()
    if i < len(v.items):
        v.items[i] = last
    return x


@model(exact=('Vec::insert',))
def m_vec_insert(it, name, a):
    v = vec_of(it, a[0])
    if a[1] > len(v.items):
        raise Panic('Vec::insert index out of bounds')
    v.items.insert(a[1], a[2])
    return UNIT


@model(exact=('Vec::clear',))
def m_vec_clear(it, name, a):
    vec_of(it, a[0]).items = []
    return UNIT


@model(exact=('Vec::truncate',))
def m_vec_truncate(it, name, a):
    v = vec_of(it, a[0])
    del v.items[a[1]:]
    return UNIT


@model(exact=('Vec::retain', 'Vec::retain_mut'))
def m_vec_retain(it, name, a):
    r = innermost_ref(it, a[0])
    v = it.read(r.cell, r.path)
    clo = as_callable_ref(it, a[1])
    keep = []
    for i in range(len(v.items)):
        if it.decide(it.call_closure_ref(clo, [elem_ref(r, i)])):
            keep.append(v.items[i])
    v.items = keep
    return UNIT


@model(exact=('Vec::dedup',))
def m_vec_dedup(it, name, a):
    v = vec_of(it, a[0])
    out = []
    for x in v.items:
        if out and it.decide(it.eq(out[-1], x)):
            continue
        out.append(x)
    v.items = out
    return UNIT


@model(exact=('Vec::drain',))
def m_vec_drain(it, name, a):
    v = vec_of(it, a[0])
    lo, hi = _range_bounds(it, a[1], len(v.items))
    out = v.items[lo:hi]
    del v.items[lo:hi]
    return IterV('owned', out, 0)


@model(exact=('Vec::extend_from_slice',))
def m_vec_extend_from_slice(it, name, a):
    vec_of(it, a[0]).items.extend(clone_val(x) for x in vec_of(it, a[1]).items)
    return UNIT


@model(exact=('Vec::as_slice', 'Vec::as_mut_slice', 'Vec::as_ptr', 'Vec::as_mut_ptr'),
       *[r'<(&(mut )?)?Vec<.*> as (Deref|DerefMut)>::deref(_mut)?', r'<Vec<.*> as AsRef<.*>>::as_ref',
         r'<Vec<.*> as Borrow<.*>>::borrow', r'<\[.*\] as AsRef<.*>>::as_ref', r'core::slice::<impl \[.*\]>::as_ptr'])
def m_vec_deref(it, name, a):
    return innermost_ref(it, a[0])


def _cellpath(it, r):
    r = innermost_ref(it, r)
    return r.cell, r.path


@model(r'<(Vec<.*>|\[.*\]) as (std::ops::)?Index(Mut)?<usize>>::index(_mut)?')
def m_vec_index(it, name, a):
    r = innermost_ref(it, a[0])
    v = it.read(r.cell, r.path)
    i = a[1]
    if not isinstance(i, int):
        i = it.concretize_index(i, r.cell, r.path)
    if i >= len(v.items) or i < 0:
        raise Panic('index out of bounds: the len is %d but the index is %d' % (len(v.items), i))
    return elem_ref(r, i)


def _range_bounds(it, r, n):
    r = it.deref(r) if isinstance(r, Ref) else r
    if r.ty == 'RangeFull':
        return 0, n
    if r.ty == 'Range':
        lo, hi = r.f[0], r.f[1]
    elif r.ty == 'RangeFrom':
        lo, hi = r.f[0], n
    elif r.ty == 'RangeTo':
        lo, hi = 0, r.f[0]
    elif r.ty == 'RangeInclusive':
        lo, hi = r.f[0], r.f[1] + 1
    elif r.ty == 'RangeToInclusive':
        lo, hi = 0, r.f[0] + 1
    else:
        raise Unsupported('range %r' % (r,))
    if not (isinstance(lo, int) and isinstance(hi, int)):
        raise Unsupported('symbolic slice bounds')
    if lo > hi:
        raise Panic('slice index starts at %d but ends at %d' % (lo, hi))
    if hi > n:
        raise Panic('range end index %d out of range for slice of length %d' % (hi, n))
    return lo, hi


@model(r'<(Vec<.*>|\[.*\]) as (std::ops::)?Index(Mut)?<(std::ops::)?Range(To|From|Full|Inclusive|ToInclusive)?(<usize>)?>>::index(_mut)?')
def m_vec_index_range(it, name, a):
    v = vec_of(it, a[0])
    lo, hi = _range_bounds(it, a[1], len(v.items))
    # a sub-slice view: immutable snapshot is enough for the (read-only) uses in this crate
    return Ref(Cell(VecV(v.items[lo:hi])))


@model(r'core::slice::<impl \[.*\]>::get', r'core::slice::<impl \[.*\]>::get_mut')
def m_slice_get(it, name, a):
    r = innermost_ref(it, a[0])
    v = it.read(r.cell, r.path)
    i = a[1]
    if isinstance(i, Adt):
        n = len(v.items)
        try:
            lo, hi = _range_bounds(it, i, n)
        except Panic:
            return none()
        return some(Ref(Cell(VecV(v.items[lo:hi]))))
    if not isinstance(i, int):
        i = it.concretize_index(i, r.cell, r.path)
    if i >= len(v.items):
        return none()
    return some(elem_ref(r, i))


@model(r'core::slice::<impl \[.*\]>::contains')
def m_slice_contains(it, name, a):
    items = vec_of(it, a[0]).items
    x = it.deref(a[1])
    for e in items:
        if it.decide(it.eq(e, x)):
            return True
    return False


@model(r'core::slice::<impl \[.*\]>::(first|last)(_mut)?')
def m_slice_first_last(it, name, a):
    r = innermost_ref(it, a[0])
    v = it.read(r.cell, r.path).items
    if not v:
        return none()
    i = len(v) - 1 if 'last' in _meth(name) else 0
    return some(elem_ref(r, i))


@model(r'core::slice::<impl \[.*\]>::(iter|iter_mut)', r'<&(mut )?(Vec<.*>|\[.*\]) as IntoIterator>::into_iter',
       r'<&(mut )?\[.*; \d+\] as IntoIterator>::into_iter')
def m_slice_iter(it, name, a):
    r = innermost_ref(it, a[0])
    return IterV('slice', r, 0, len(it.read(r.cell, r.path).items))


@model(r'<(Vec<.*>|\[.*; \d+\]) as IntoIterator>::into_iter', r'core::array::<impl IntoIterator for \[.*\]>::into_iter')
def m_vec_into_iter(it, name, a):
    v = a[0]
    return IterV('owned', list(v.items), 0)


@model(r'<(Vec<.*>) as Clone>::clone', r'core::slice::<impl \[.*\]>::to_vec', r'<\[.*\] as ToOwned>::to_owned',
       r'slice::<impl \[.*\]>::to_vec', r'std::slice::<impl \[.*\]>::to_vec')
def m_vec_clone(it, name, a):
    return clone_val(vec_of(it, a[0]))


@model(r'<(Vec<.*>|\[.*\]|&\[.*\]|&Vec<.*>) as PartialEq(<.*>)?>::(eq|ne)')
def m_vec_eq(it, name, a):
    x, y = it.deref(a[0]), it.deref(a[1])
    r = it.eq(x, y)
    return neg(r) if name.endswith('::ne') else r


@model(r'<Vec<.*> as Extend<.*>>::extend(::<.*>)?')
def m_vec_extend(it, name, a):
    dst = vec_of(it, a[0])
    src = iter_of(it, a[1])
    byref = 'Extend<&' in name
    for x in drain_iter(it, src):
        dst.items.append(clone_val(it.deref(x)) if byref else x)
    return UNIT


@model(r'<Vec<.*> as FromIterator<.*>>::from_iter(::<.*>)?')
def m_vec_from_iter(it, name, a):
    return VecV(drain_iter(it, iter_of(it, a[0])))


@model(r'core::slice::<impl \[.*\]>::sort(_unstable)?', r'slice::<impl \[.*\]>::sort', r'std::slice::<impl \[.*\]>::sort')
def m_slice_sort(it, name, a):
    v = vec_of(it, a[0])
    items = list(v.items)
    # insertion sort with solver-decided comparisons (stable, like slice::sort)
    out = []
    for x in items:
        pos = len(out)
        while pos > 0 and it.decide(_lt(it, x, out[pos - 1])):
            pos -= 1
        out.insert(pos, x)
    v.items = out
    return UNIT


def _lt(it, a, b):
    a = it.deref(a)
    b = it.deref(b)
    if isinstance(a, EnumC):
        a, b = a.d, b.d
    if isinstance(a, Sym) or isinstance(b, Sym):
        raise Unsupported('ordering of native key symbols (declare ordered keys as z3 terms)')
    if isinstance(a, Adt) and isinstance(b, Adt) and a.ty in ('Instant', 'Duration') and a.ty == b.ty:
        return a.f[0] < b.f[0]
    if isinstance(a, str) and isinstance(b, str):
        return a < b
    if isinstance(a, int) and isinstance(b, int):
        return a < b
    if z3.is_expr(a) or z3.is_expr(b):
        return it.binop('Lt', a, b, 'i32')
    raise Unsupported('ordering of %r, %r' % (a, b))


@model(r'(core::)?slice::<impl \[.*\]>::sort(_unstable)?_by_key(::<.*>)?', r'std::slice::<impl \[.*\]>::sort(_unstable)?_by_key(::<.*>)?',
       r'(core::)?slice::<impl \[.*\]>::sort_by_cached_key(::<.*>)?')
def m_slice_sort_by_key(it, name, a):
    r = innermost_ref(it, a[0])
    v = it.read(r.cell, r.path)
    clo = as_callable_ref(it, a[1])
    keyed = []
    for i in range(len(v.items)):
        keyed.append((it.call_closure_ref(clo, [elem_ref(r, i)]), v.items[i]))
    out = []
    for kx in keyed:
        pos = len(out)
        while pos > 0 and it.decide(_lt(it, kx[0], out[pos - 1][0])):
            pos -= 1
        out.insert(pos, kx)
    v.items = [x for _, x in out]
    return UNIT


@model(r'(core::)?slice::<impl \[.*\]>::sort(_unstable)?_by(::<.*>)?', r'std::slice::<impl \[.*\]>::sort(_unstable)?_by(::<.*>)?')
def m_slice_sort_by(it, name, a):
    r = innermost_ref(it, a[0])
    v = it.read(r.cell, r.path)
    clo = as_callable_ref(it, a[1])
    items = list(v.items)
    out = []
    for x in items:
        pos = len(out)
        while pos > 0:
            o = it.call_closure_ref(clo, [Ref(Cell(x)), Ref(Cell(out[pos - 1]))])
            if o.variant != 'Less':
                break
            pos -= 1
        out.insert(pos, x)
    v.items = out
    return UNIT


@model(r'core::slice::<impl \[.*\]>::reverse')
def m_slice_reverse(it, name, a):
    vec_of(it, a[0]).items.reverse()
    return UNIT


@model(r'(core::)?slice::<impl \[.*\]>::join.*', r'std::slice::<impl \[.*\]>::join.*', exact=('slice::join',))
def m_slice_join(it, name, a):
    from .symstr import sconcat
    parts = [it.deref(x) for x in vec_of(it, a[0]).items]
    sep = it.deref(a[1])
    out = ''
    for i, p_ in enumerate(parts):
        if i:
            out = sconcat(out, sep)
        out = sconcat(out, p_)
    return out


@model(r'core::slice::<impl \[.*\]>::concat.*', r'slice::<impl \[.*\]>::concat.*')
def m_slice_concat(it, name, a):
    parts = [it.deref(x) for x in vec_of(it, a[0]).items]
    if all(isinstance(p_, str) for p_ in parts):
        return ''.join(parts)
    out = []
    for p_ in parts:
        out.extend(clone_val(x) for x in p_.items)
    return VecV(out)


@model(r'core::slice::<impl \[.*\]>::copy_from_slice', r'core::slice::<impl \[.*\]>::clone_from_slice')
def m_copy_from_slice(it, name, a):
    dst = vec_of(it, a[0])
    src = vec_of(it, a[1])
    if len(dst.items) != len(src.items):
        raise Panic('copy_from_slice: length mismatch')
    dst.items[:] = list(src.items)
    return UNIT


@model(r'core::slice::<impl \[.*\]>::starts_with')
def m_slice_starts_with(it, name, a):
    x = vec_of(it, a[0]).items
    y = vec_of(it, a[1]).items
    if len(y) > len(x):
        return False
    return it.eq(VecV(x[:len(y)]), VecV(y))


# --------------------------------------------------------------------------- iterators
@model(r'<.* as IntoIterator>::into_iter')
def m_into_iter(it, name, a):
    return iter_of(it, a[0])


@model(r'<.* as (Iterator|DoubleEndedIterator)>::(next|next_back)')
def m_iter_next(it, name, a):
    return iter_next(it, a[0], back=name.endswith('next_back'))


@model(r'<.* as Iterator>::rev')
def m_iter_rev(it, name, a):
    return IterV('rev', iter_of(it, a[0]))


@model(r'<.* as Iterator>::map(::<.*>)?')
def m_iter_map(it, name, a):
    return IterV('map', iter_of(it, a[0]), as_callable_ref(it, a[1]))


@model(r'<.* as Iterator>::filter(::<.*>)?')
def m_iter_filter(it, name, a):
    return IterV('filter', iter_of(it, a[0]), as_callable_ref(it, a[1]))


@model(r'<.* as Iterator>::filter_map(::<.*>)?')
def m_iter_filter_map(it, name, a):
    return IterV('filter_map', iter_of(it, a[0]), as_callable_ref(it, a[1]))


@model(r'<.* as Iterator>::flat_map(::<.*>)?')
def m_iter_flat_map(it, name, a):
    return IterV('flat_map', iter_of(it, a[0]), as_callable_ref(it, a[1]), None)


@model(r'<.* as Iterator>::flatten(::<.*>)?')
def m_iter_flatten(it, name, a):
    return IterV('flat_map', iter_of(it, a[0]), None, None)


@model(r'<.* as Iterator>::chain(::<.*>)?')
def m_iter_chain(it, name, a):
    return IterV('chain', iter_of(it, a[0]), iter_of(it, a[1]))


@model(r'<.* as Iterator>::enumerate')
def m_iter_enumerate(it, name, a):
    return IterV('enumerate', iter_of(it, a[0]), 0)


@model(r'<.* as Iterator>::zip(::<.*>)?')
def m_iter_zip(it, name, a):
    return IterV('zip', iter_of(it, a[0]), iter_of(it, a[1]))


@model(r'<.* as Iterator>::(cloned|copied)(::<.*>)?')
def m_iter_cloned(it, name, a):
    return IterV('cloned', iter_of(it, a[0]))


@model(r'<.* as Iterator>::skip')
def m_iter_skip(it, name, a):
    return IterV('skip', iter_of(it, a[0]), a[1])


@model(r'<.* as Iterator>::take')
def m_iter_take(it, name, a):
    return IterV('take', iter_of(it, a[0]), a[1])


@model(r'<.* as Iterator>::take_while(::<.*>)?')
def m_iter_take_while(it, name, a):
    return IterV('take_while', iter_of(it, a[0]), as_callable_ref(it, a[1]), False)


@model(r'<.* as Iterator>::skip_while(::<.*>)?')
def m_iter_skip_while(it, name, a):
    return IterV('skip_while', iter_of(it, a[0]), as_callable_ref(it, a[1]), False)


@model(r'<.* as Iterator>::step_by')
def m_iter_step_by(it, name, a):
    if a[1] == 0:
        raise Panic('step_by(0)')
    return IterV('step_by', iter_of(it, a[0]), a[1])


@model(r'<.* as Iterator>::inspect(::<.*>)?')
def m_iter_inspect(it, name, a):
    return IterV('inspect', iter_of(it, a[0]), as_callable_ref(it, a[1]))


@model(r'<.* as (Iterator|DoubleEndedIterator)>::rposition(::<.*>)?')
def m_iter_rposition(it, name, a):
    xs = drain_iter(it, iter_of(it, a[0]))
    clo = as_callable_ref(it, a[1])
    for i in range(len(xs) - 1, -1, -1):
        if it.decide(it.call_closure_ref(clo, [xs[i]])):
            return some(i)
    return none()


@model(r'<.* as (Iterator|DoubleEndedIterator)>::rfind(::<.*>)?')
def m_iter_rfind(it, name, a):
    xs = drain_iter(it, iter_of(it, a[0]))
    clo = as_callable_ref(it, a[1])
    for i in range(len(xs) - 1, -1, -1):
        if it.decide(it.call_closure_ref(clo, [Ref(Cell(xs[i]))])):
            return some(xs[i])
    return none()


@model(r'<.* as Iterator>::peekable')
def m_iter_peekable(it, name, a):
    return IterV('peekable', iter_of(it, a[0]), None)


@model(r'Peekable::<.*>::peek', exact=('Peekable::peek',))
def m_peek(it, name, a):
    p_ = it.deref(a[0])
    if p_.b is None:
        p_.b = iter_next(it, p_.a, False)
    if p_.b.variant == 'None':
        return none()
    return some(Ref(Cell(p_.b.f[0])))


@model(r'<.* as Iterator>::any(::<.*>)?')
def m_iter_any(it, name, a):
    src = iter_of(it, a[0])
    clo = as_callable_ref(it, a[1])
    while True:
        x = iter_next(it, src, False)
        if x.variant == 'None':
            return False
        if it.decide(it.call_closure_ref(clo, [x.f[0]])):
            return True


@model(r'<.* as Iterator>::all(::<.*>)?')
def m_iter_all(it, name, a):
    src = iter_of(it, a[0])
    clo = as_callable_ref(it, a[1])
    while True:
        x = iter_next(it, src, False)
        if x.variant == 'None':
            return True
        if not it.decide(it.call_closure_ref(clo, [x.f[0]])):
            return False


@model(r'<.* as Iterator>::find(::<.*>)?')
def m_iter_find(it, name, a):
    src = iter_of(it, a[0])
    clo = as_callable_ref(it, a[1])
    while True:
        x = iter_next(it, src, False)
        if x.variant == 'None':
            return x
        if it.decide(it.call_closure_ref(clo, [Ref(Cell(x.f[0]))])):
            return x


@model(r'<.* as Iterator>::find_map(::<.*>)?')
def m_iter_find_map(it, name, a):
    src = iter_of(it, a[0])
    clo = as_callable_ref(it, a[1])
    while True:
        x = iter_next(it, src, False)
        if x.variant == 'None':
            return x
        r = it.call_closure_ref(clo, [x.f[0]])
        if r.variant == 'Some':
            return r


@model(r'<.* as Iterator>::position(::<.*>)?')
def m_iter_position(it, name, a):
    src = iter_of(it, a[0])
    clo = as_callable_ref(it, a[1])
    i = 0
    while True:
        x = iter_next(it, src, False)
        if x.variant == 'None':
            return x
        if it.decide(it.call_closure_ref(clo, [x.f[0]])):
            return some(i)
        i += 1


@model(r'<.* as Iterator>::count')
def m_iter_count(it, name, a):
    return len(drain_iter(it, iter_of(it, a[0])))


@model(r'<.* as Iterator>::last')
def m_iter_last(it, name, a):
    xs = drain_iter(it, iter_of(it, a[0]))
    return some(xs[-1]) if xs else none()


@model(r'<.* as Iterator>::nth')
def m_iter_nth(it, name, a):
    src = iter_of(it, a[0])
    for _ in range(a[1]):
        if iter_next(it, src, False).variant == 'None':
            return none()
    return iter_next(it, src, False)


@model(r'<.* as Iterator>::for_each(::<.*>)?')
def m_iter_for_each(it, name, a):
    clo = as_callable_ref(it, a[1])
    for x in drain_iter(it, iter_of(it, a[0])):
        it.call_closure_ref(clo, [x])
    return UNIT


@model(r'<.* as Iterator>::fold(::<.*>)?')
def m_iter_fold(it, name, a):
    acc = a[1]
    clo = as_callable_ref(it, a[2])
    for x in drain_iter(it, iter_of(it, a[0])):
        acc = it.call_closure_ref(clo, [acc, x])
    return acc


@model(r'<.* as Iterator>::collect(::<.*>)?')
def m_iter_collect(it, name, a):
    out = drain_iter(it, iter_of(it, a[0]))
    tgt = name.split('>::collect::<')[-1] if '>::collect::<' in name else 'Vec'
    if tgt.startswith(('HashMap', 'std::collections::HashMap', 'BTreeMap', 'std::collections::BTreeMap')):
        mp = MapV('btree' if 'BTree' in tgt else 'hash')
        for t_ in out:
            _map_insert(it, mp, t_.f[0], t_.f[1])
        return mp
    if tgt.startswith(('HashSet', 'std::collections::HashSet', 'BTreeSet', 'std::collections::BTreeSet')):
        mp = MapV('btree' if 'BTree' in tgt else 'hash')
        for t_ in out:
            _map_insert(it, mp, t_, None)
        return mp
    if tgt.startswith(('std::string::String', 'String')):
        from .symstr import sconcat, schr
        s = ''
        for c in out:
            c = it.deref(c)
            s = sconcat(s, c if isinstance(c, str) or not isinstance(c, (int,)) and not z3.is_expr(c) else schr(c))
        return s
    if tgt.startswith(('Result<', 'std::result::Result<')):
        vals = []
        for r in out:
            if r.variant == 'Err':
                return r
            vals.append(r.f[0])
        return ok(VecV(vals))
    if tgt.startswith(('Option<', 'std::option::Option<')):
        vals = []
        for r in out:
            if r.variant == 'None':
                return r
            vals.append(r.f[0])
        return some(VecV(vals))
    if tgt.startswith('Vec'):
        return VecV(out)
    raise Unsupported('collect into ' + tgt)


@model(r'<.* as Iterator>::(max|min)')
def m_iter_minmax(it, name, a):
    xs = drain_iter(it, iter_of(it, a[0]))
    if not xs:
        return none()
    best = xs[0]
    want_max = name.endswith('max')
    for x in xs[1:]:
        lt = it.decide(_lt(it, best, x))
        if (want_max and (lt or it.decide(it.eq(it.deref(best), it.deref(x))))) or (not want_max and it.decide(_lt(it, x, best))):
            best = x
    return some(best)


@model(r'<.* as Iterator>::sum(::<.*>)?')
def m_iter_sum(it, name, a):
    acc = 0
    for x in drain_iter(it, iter_of(it, a[0])):
        acc = it.binop('Add', acc, it.deref(x), 'usize')
    return acc


@model(r'<.* as ExactSizeIterator>::len', r'<.* as Iterator>::size_hint')
def m_iter_len(it, name, a):
    raise Unsupported('iterator len/size_hint')


# --------------------------------------------------------------------------- equality / clone / ordering
@model(r'<.* as PartialEq(<.*>)?>::(eq|ne)')
def m_partial_eq(it, name, a):
    x, y = it.deref(a[0]), it.deref(a[1])
    is_ne = name.endswith('::ne')
    if is_ne:
        # default method: forwards to the (possibly crate-defined) eq
        base = name[:-2] + 'eq'
        args = list(a)
        while base.startswith('<&'):
            base = '<' + re.sub(r"^<&('\w+ )?(mut )?", '', base)
            args = [it.read(r.cell, r.path) for r in args]
        f = it.p.resolve(base)
        if f is not None:
            return neg(it.run(f, args))
    r = it.eq(x, y)
    return neg(r) if is_ne else r


@model(r'<.* as Clone>::clone', r'<.* as ToOwned>::to_owned')
def m_clone(it, name, a):
    return clone_val(it.deref(a[0]))


@model(r'(std|core)::cmp::(max|min)(::<.*>)?', r'<.* as (PartialOrd|Ord)(<.*>)?>::(lt|le|gt|ge|cmp|partial_cmp|max|min)')
def m_ord(it, name, a):
    op = _meth(name)
    if op in ('max', 'min'):
        x, y = a[0], a[1]
        lt = it.decide(_lt(it, y, x))
        if op == 'max':
            return x if lt else y
        return y if lt else x
    x, y = it.deref(a[0]), it.deref(a[1])
    if isinstance(x, Adt) and x.ty in ('Instant', 'Duration'):
        x, y = x.f[0], y.f[0]
        if op in ('lt', 'le', 'gt', 'ge'):
            return {'lt': lambda: x < y, 'le': lambda: x <= y, 'gt': lambda: x > y, 'ge': lambda: x >= y}[op]()
        o = Adt('Ordering', 'Less' if it.decide(x < y) else ('Equal' if it.decide(x == y) else 'Greater'), [])
        return some(o) if op == 'partial_cmp' else o
    ty = 'i64'
    if isinstance(x, EnumC):
        x, y = x.d, y.d
        ty = 'i32'
    if isinstance(x, str) and isinstance(y, str):
        if op in ('cmp', 'partial_cmp'):
            o = Adt('Ordering', 'Less' if x < y else ('Equal' if x == y else 'Greater'), [])
            return some(o) if op == 'partial_cmp' else o
        return {'lt': x < y, 'le': x <= y, 'gt': x > y, 'ge': x >= y}[op]
    if isinstance(x, Sym) or isinstance(y, Sym):
        raise Unsupported('ordering of native key symbols')
    if op in ('cmp', 'partial_cmp'):
        o = it.binop('Cmp', x, y, ty)
        return some(o) if op == 'partial_cmp' else o
    return it.binop({'lt': 'Lt', 'le': 'Le', 'gt': 'Gt', 'ge': 'Ge'}[op], x, y, ty)


@model(r'<.* as (FnMut|Fn|FnOnce)<.*>>::call(_mut|_once)?')
def m_fn_call(it, name, a):
    c = it.deref(a[0])
    args = list(a[1].f)
    if isinstance(c, Adt) and c.ty.startswith('fnitem:'):
        return it.call(c.ty[7:], args, None)
    if isinstance(a[0], Ref):
        return it.call_closure_ref(a[0], args)
    return it.call_callable(c, args)


# --------------------------------------------------------------------------- HashMap / HashSet / BTreeMap
def _map_find(it, mp, k):
    for e in mp.entries:
        if it.decide(it.eq(e[0], k)):
            return e
    return None


def _map_insert(it, mp, k, v):
    e = _map_find(it, mp, k)
    if e is not None:
        old = e[1].v
        e[1].v = v
        return some(old)
    mp.entries.append([k, Cell(v)])
    return none()


def _is_map_name(n):
    return re.match(r'(std::collections::)?(hash_map::|btree_map::|hash_set::|btree_set::)?(HashMap|BTreeMap|HashSet|BTreeSet|serde_json::Map|Map)::', n)


@model(exact=('HashMap::new', 'HashSet::new', 'BTreeMap::new', 'BTreeSet::new', 'serde_json::Map::new',
              'HashMap::with_capacity', 'HashSet::with_capacity', 'std::collections::HashMap::new', 'std::collections::HashSet::new'))
def m_map_new(it, name, a):
    return MapV('btree' if 'BTree' in name else 'hash')


@model(exact=('HashMap::get', 'HashMap::get_mut', 'BTreeMap::get', 'BTreeMap::get_mut', 'serde_json::Map::get', 'serde_json::Map::get_mut'))
def m_map_get(it, name, a):
    mp = it.deref(a[0])
    e = _map_find(it, mp, it.deref(a[1]))
    return some(Ref(e[1])) if e is not None else none()


@model(exact=('HashMap::contains_key', 'BTreeMap::contains_key', 'serde_json::Map::contains_key', 'HashSet::contains', 'BTreeSet::contains'))
def m_map_contains(it, name, a):
    return _map_find(it, it.deref(a[0]), it.deref(a[1])) is not None


@model(exact=('HashMap::insert', 'BTreeMap::insert', 'serde_json::Map::insert'))
def m_map_insert(it, name, a):
    return _map_insert(it, it.deref(a[0]), a[1], a[2])


@model(exact=('HashSet::insert', 'BTreeSet::insert'))
def m_set_insert(it, name, a):
    mp = it.deref(a[0])
    if _map_find(it, mp, a[1]) is not None:
        return False
    mp.entries.append([a[1], Cell(None)])
    return True


@model(exact=('HashMap::remove', 'BTreeMap::remove', 'serde_json::Map::remove'))
def m_map_remove(it, name, a):
    mp = it.deref(a[0])
    e = _map_find(it, mp, it.deref(a[1]))
    if e is None:
        return none()
    mp.entries.remove(e)
    return some(e[1].v)


@model(exact=('HashSet::remove', 'BTreeSet::remove'))
def m_set_remove(it, name, a):
    mp = it.deref(a[0])
    e = _map_find(it, mp, it.deref(a[1]))
    if e is None:
        return False
    mp.entries.remove(e)
    return True


@model(exact=('HashMap::len', 'BTreeMap::len', 'HashSet::len', 'BTreeSet::len', 'serde_json::Map::len'))
def m_map_len(it, name, a):
    return len(it.deref(a[0]).entries)


@model(exact=('HashMap::is_empty', 'BTreeMap::is_empty', 'HashSet::is_empty', 'BTreeSet::is_empty', 'serde_json::Map::is_empty'))
def m_map_is_empty(it, name, a):
    return len(it.deref(a[0]).entries) == 0


def _ordered_entries(it, mp):
    if mp.kind == 'btree':
        es = list(mp.entries)
        out = []
        for e in es:
            pos = len(out)
            while pos > 0 and it.decide(_lt(it, e[0], out[pos - 1][0])):
                pos -= 1
            out.insert(pos, e)
        return out
    return list(mp.entries)


@model(exact=('HashMap::keys', 'BTreeMap::keys', 'serde_json::Map::keys'))
def m_map_keys(it, name, a):
    return IterV('owned', [Ref(Cell(e[0])) for e in _ordered_entries(it, it.deref(a[0]))], 0)


@model(exact=('HashMap::values', 'BTreeMap::values', 'HashMap::values_mut', 'BTreeMap::values_mut', 'serde_json::Map::values', 'serde_json::Map::values_mut'))
def m_map_values(it, name, a):
    return IterV('owned', [Ref(e[1]) for e in _ordered_entries(it, it.deref(a[0]))], 0)


@model(exact=('HashMap::iter', 'BTreeMap::iter', 'HashMap::iter_mut', 'serde_json::Map::iter'))
def m_map_iter(it, name, a):
    return IterV('owned', [Adt('()', None, [Ref(Cell(e[0])), Ref(e[1])]) for e in _ordered_entries(it, it.deref(a[0]))], 0)


@model(exact=('HashSet::iter', 'BTreeSet::iter'))
def m_set_iter(it, name, a):
    return IterV('owned', [Ref(Cell(e[0])) for e in _ordered_entries(it, it.deref(a[0]))], 0)


@model(exact=('HashMap::entry', 'BTreeMap::entry'))
def m_map_entry(it, name, a):
    return Adt('MapEntry', None, [it.deref(a[0]), a[1]])


@model(r'(std::collections::)?(hash_map|btree_map)::Entry::<.*>::(or_insert|or_insert_with|or_default)(::<.*>)?',
       exact=('std::collections::hash_map::Entry::or_insert', 'std::collections::hash_map::Entry::or_insert_with',
              'std::collections::hash_map::Entry::or_default', 'hash_map::Entry::or_insert', 'hash_map::Entry::or_insert_with',
              'hash_map::Entry::or_default'))
def m_entry_or(it, name, a):
    mp, k = a[0].f
    e = _map_find(it, mp, k)
    if e is None:
        meth = strip_generics(name).split('::')[-1]
        if meth == 'or_insert':
            v = a[1]
        elif meth == 'or_insert_with':
            v = it.call_callable(a[1], [])
        else:
            v = VecV([])
        e = [k, Cell(v)]
        mp.entries.append(e)
    return Ref(e[1])


@model(r'<(HashMap|BTreeMap)<.*> as (std::ops::)?Index<.*>>::index')
def m_map_index(it, name, a):
    e = _map_find(it, it.deref(a[0]), it.deref(a[1]))
    if e is None:
        raise Panic('key not found in map')
    return Ref(e[1])


@model(r'<(HashMap|BTreeMap|HashSet|BTreeSet)<.*> as Clone>::clone')
def m_map_clone(it, name, a):
    return clone_val(it.deref(a[0]))


@model(r'<(HashMap|BTreeMap|HashSet|BTreeSet)<.*> as Extend<.*>>::extend(::<.*>)?')
def m_map_extend(it, name, a):
    mp = it.deref(a[0])
    byref = 'Extend<&' in name or 'Extend<(&' in name       # impl Extend<&T> for HashSet<T: Copy> / Extend<(&K, &V)>: copies
    for x in drain_iter(it, iter_of(it, a[1])):
        if byref:
            x = it.deref(x)
            if isinstance(x, Adt) and x.ty == '()':
                x = Adt('()', None, [clone_val(it.deref(y)) for y in x.f])
            else:
                x = clone_val(x)
        if isinstance(x, Adt) and x.ty == '()' and len(x.f) == 2 and 'Set' not in name.split(' as ')[0]:
            _map_insert(it, mp, x.f[0], x.f[1])
        else:
            _map_insert(it, mp, x, None)
    return UNIT


# --------------------------------------------------------------------------- lazy_static
@model(r'<[A-Z][A-Z_0-9]* as Deref>::deref')
def m_lazy_deref(it, name, a):
    key = re.fullmatch(r'<(\w+) as Deref>::deref', name).group(1)
    if key not in it.p.lazy:
        f = it.p.lazy_init.get(key)
        if f is None:
            raise Unsupported('lazy static ' + key)
        # initialisers are closed terms: run them on a scratch interpreter without a path condition
        from .interp import Interp
        sub = Interp(it.p)
        it.p.lazy[key] = Cell(sub.run(f, []))
    return Ref(it.p.lazy[key])


# --------------------------------------------------------------------------- integers / chars
@model(r'core::num::<impl (\w+)>::to_(ne|le)_bytes')
def m_to_bytes(it, name, a):
    from .interp import INT_BITS
    ty = re.fullmatch(r'core::num::<impl (\w+)>::to_(ne|le)_bytes', name).group(1)
    bits = INT_BITS[ty]
    v = a[0]
    if isinstance(v, int):
        v &= (1 << bits) - 1
        return VecV(list(v.to_bytes(bits // 8, 'little')))
    return VecV([z3.simplify(z3.Extract(8 * i + 7, 8 * i, v)) for i in range(bits // 8)])


@model(r'core::num::<impl (\w+)>::from_(ne|le)_bytes')
def m_from_bytes(it, name, a):
    from .interp import INT_BITS, wrap
    ty = re.fullmatch(r'core::num::<impl (\w+)>::from_(ne|le)_bytes', name).group(1)
    bits = INT_BITS[ty]
    items = it.deref(a[0]).items if not isinstance(a[0], VecV) else a[0].items
    if len(items) != bits // 8:
        raise Unsupported('from_ne_bytes length')
    if all(isinstance(b, int) for b in items):
        return wrap(int.from_bytes(bytes(items), 'little'), bits, ty.startswith('i'))
    bv = [b if z3.is_expr(b) else z3.BitVecVal(b, 8) for b in items]
    return z3.simplify(z3.Concat(*reversed(bv)))


@model(r'core::num::<impl (\w+)>::(wrapping|checked|saturating|overflowing)_(add|sub|mul)')
def m_int_ops(it, name, a):
    m = re.fullmatch(r'core::num::<impl (\w+)>::(wrapping|checked|saturating|overflowing)_(add|sub|mul)', name)
    ty, mode, op = m.groups()
    r = it.binop({'add': 'Add', 'sub': 'Sub', 'mul': 'Mul'}[op] + 'WithOverflow', a[0], a[1], ty)
    val, of = r.f
    if mode == 'wrapping':
        return val
    if mode == 'overflowing':
        return r
    if mode == 'checked':
        return none() if it.decide(of) else some(val)
    raise Unsupported('saturating arithmetic')


@model(r'core::num::<impl (\w+)>::(abs|pow|min_value|max_value|count_ones|leading_zeros|trailing_zeros)')
def m_int_misc(it, name, a):
    from .interp import INT_BITS
    m = re.fullmatch(r'core::num::<impl (\w+)>::(\w+)', name)
    ty, op = m.groups()
    if op == 'abs' and isinstance(a[0], int):
        return abs(a[0])
    if op == 'count_ones' and isinstance(a[0], int):
        return bin(a[0] & ((1 << INT_BITS[ty]) - 1)).count('1')
    if op == 'pow' and isinstance(a[0], int) and isinstance(a[1], int):
        return a[0] ** a[1]
    raise Unsupported(name)


@model(r'core::num::<impl (\w+)>::from_str_radix', r'core::num::<impl FromStr for (\w+)>::from_str', r'<(\w+) as FromStr>::from_str',
       r'core::str::<impl str>::parse::<(\w+)>')
def m_parse_int(it, name, a):
    from .interp import INT_BITS
    m = re.search(r'impl (?:FromStr for )?(\w+)>|<(\w+) as FromStr>|parse::<(\w+)>', name)
    ty = [g for g in m.groups() if g][0]
    if ty not in INT_BITS:
        raise Unsupported('parse::<%s>' % ty)
    s = it.deref(a[0])
    radix = a[1] if 'radix' in name else 10
    from .symstr import SStr
    if isinstance(s, SStr) and radix == 16 and not ty.startswith('i'):
        return _parse_hex_sym(it, s, ty)
    if not isinstance(s, str) or not isinstance(radix, int):
        raise Unsupported('symbolic integer parsing')
    bits = INT_BITS[ty]
    signed = ty.startswith('i')
    body = s
    sign = 1
    if body[:1] == '+':
        body = body[1:]
    elif body[:1] == '-' and signed:
        sign = -1
        body = body[1:]
    E = lambda kind: err(Adt('ParseIntError', kind, []))
    if body == '':
        return E('Empty' if s == '' else 'InvalidDigit')
    digits = '0123456789abcdefghijklmnopqrstuvwxyz'[:radix]
    v = 0
    for c in body:
        d = digits.find(c.lower()) if c.isascii() else -1
        if d < 0:
            return E('InvalidDigit')
        v = v * radix + d
    v *= sign
    lo, hi = (-(1 << (bits - 1)), (1 << (bits - 1)) - 1) if signed else (0, (1 << bits) - 1)
    if v > hi:
        return E('PosOverflow')
    if v < lo:
        return E('NegOverflow')
    return ok(v)


def _parse_hex_sym(it, s, ty):
    """u64::from_str_radix(s, 16) on a string with symbolic characters: forks on digit / non-digit per symbolic char"""
    from .interp import INT_BITS
    bits = INT_BITS[ty]
    E = lambda kind: err(Adt('ParseIntError', kind, []))
    cs = list(s.chars)
    if not cs:
        return E('Empty')
    if isinstance(cs[0], int) and chr(cs[0]) == '+':
        cs = cs[1:]
        if not cs:
            return E('InvalidDigit')
    if len(cs) * 4 > bits:
        # leading digits must be zero, else PosOverflow: keep it simple and concrete
        raise Unsupported('symbolic hex literal wider than the target type')
    val = z3.BitVecVal(0, bits)
    for c in cs:
        if isinstance(c, int):
            ch = chr(c)
            if ch not in '0123456789abcdefABCDEF':
                return E('InvalidDigit')
            d = z3.BitVecVal(int(ch, 16), bits)
        else:
            if it.decide(z3.And(z3.UGE(c, ord('0')), z3.ULE(c, ord('9')))):
                d = z3.ZeroExt(bits - 32, c - ord('0')) if bits > 32 else z3.Extract(bits - 1, 0, c - ord('0'))
            elif it.decide(z3.And(z3.UGE(c, ord('a')), z3.ULE(c, ord('f')))):
                d = z3.ZeroExt(bits - 32, c - ord('a') + 10) if bits > 32 else z3.Extract(bits - 1, 0, c - ord('a') + 10)
            elif it.decide(z3.And(z3.UGE(c, ord('A')), z3.ULE(c, ord('F')))):
                d = z3.ZeroExt(bits - 32, c - ord('A') + 10) if bits > 32 else z3.Extract(bits - 1, 0, c - ord('A') + 10)
            else:
                return E('InvalidDigit')
        val = (val << 4) | d
    return ok(z3.simplify(val))


@model(exact=('char::methods::<impl char>::is_control', 'core::char::methods::<impl char>::is_control'))
def m_is_control(it, name, a):
    c = a[0]
    if isinstance(c, int):
        return c <= 0x1f or 0x7f <= c <= 0x9f
    return z3.Or(z3.ULE(c, 0x1f), z3.And(z3.UGE(c, 0x7f), z3.ULE(c, 0x9f)))


@model(r'(core::)?char::methods::<impl char>::(is_ascii\w*|is_whitespace|is_alphabetic|is_numeric|is_alphanumeric|is_uppercase|is_lowercase|to_ascii_lowercase|to_ascii_uppercase|is_digit|to_digit|len_utf8)')
def m_char_methods(it, name, a):
    op = _meth(name)
    c = a[0]
    if isinstance(c, Ref):
        c = it.deref(c)
    if not isinstance(c, int):
        raise Unsupported('symbolic char::' + op)
    ch = chr(c)
    if op == 'is_ascii':
        return c < 128
    if op == 'is_ascii_digit':
        return ch in '0123456789'
    if op == 'is_ascii_alphabetic':
        return c < 128 and ch.isalpha()
    if op == 'is_ascii_alphanumeric':
        return c < 128 and ch.isalnum()
    if op == 'is_ascii_uppercase':
        return 'A' <= ch <= 'Z'
    if op == 'is_ascii_lowercase':
        return 'a' <= ch <= 'z'
    if op == 'is_ascii_whitespace':
        return ch in ' \t\n\x0c\r'
    if op == 'is_ascii_punctuation':
        return c < 128 and not ch.isalnum() and 33 <= c <= 126
    if op == 'is_whitespace':
        return ch.isspace() and ch not in '\x1c\x1d\x1e\x1f'
    if op == 'is_alphabetic':
        return ch.isalpha()
    if op == 'is_numeric':
        return ch.isnumeric()
    if op == 'is_alphanumeric':
        return ch.isalnum()
    if op == 'is_uppercase':
        return ch.isupper()
    if op == 'is_lowercase':
        return ch.islower()
    if op == 'to_ascii_lowercase':
        return ord(ch.lower()) if c < 128 else c
    if op == 'to_ascii_uppercase':
        return ord(ch.upper()) if c < 128 else c
    if op == 'len_utf8':
        return len(ch.encode('utf-8'))
    if op == 'is_digit':
        return ch.lower() in '0123456789abcdefghijklmnopqrstuvwxyz'[:a[1]] and c < 128
    if op == 'to_digit':
        d = '0123456789abcdefghijklmnopqrstuvwxyz'[:a[1]].find(ch.lower()) if c < 128 else -1
        return some(d) if d >= 0 else none()
    raise Unsupported(name)


# --------------------------------------------------------------------------- strings (concrete; symbolic ones live in symstr.py)
from . import strmodels  # noqa: E402,F401  (registers string, fmt, serde and io models)
