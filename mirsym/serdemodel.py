"""serde data-model serializer building a serde_json::Value the way serde_json documents it
(struct -> object, unit variant -> string, struct variant -> {"V": {...}}, seq -> array, integers -> number),
plus the serde_json::Value / Number surface the crate's parser uses. The derived Serialize impls
themselves are executed from the crate's MIR."""
import re

import z3

from .models import _meth, model, innermost_ref
from .values import (Cell, Ref, Adt, VecV, MapV, IterV, EnumC, Sym, Opaque, UNIT, Panic, Unsupported,
                     clone_val, some, none, ok, err)


def jnull():
    return Adt('Value', 'Null', [])


def jstr(s):
    return Adt('Value', 'String', [s])


def jnum(n):
    return Adt('Value', 'Number', [n])


def jbool(b):
    return Adt('Value', 'Bool', [b])


def jarr(items):
    return Adt('Value', 'Array', [VecV(list(items))])


def jobj(pairs):
    m = MapV('btree')
    for k, v in pairs:
        m.entries.append([k, Cell(v)])
    return Adt('Value', 'Object', [m])


def from_python(x):
    if isinstance(x, dict):
        return jobj([(k, from_python(v)) for k, v in x.items()])
    if isinstance(x, (list, tuple)):
        return jarr([from_python(y) for y in x])
    if isinstance(x, str):
        return jstr(x)
    if isinstance(x, bool):
        return jbool(x)
    if isinstance(x, (int, float)):
        return jnum(x)
    if x is None:
        return jnull()
    if isinstance(x, Adt):
        return x
    if z3.is_expr(x) or isinstance(x, Opaque):
        return jnum(x)
    raise Unsupported('json value %r' % (x,))


def to_python(v):
    """for reports"""
    if v.variant == 'Null':
        return None
    if v.variant in ('Bool', 'String'):
        return v.f[0]
    if v.variant == 'Number':
        return v.f[0] if isinstance(v.f[0], (int, float)) else str(v.f[0])
    if v.variant == 'Array':
        return [to_python(x) for x in v.f[0].items]
    if v.variant == 'Object':
        return {k: to_python(c.v) for k, c in v.f[0].entries}
    return str(v)


def serialize_value(it, v):
    """Serialize::serialize(v, ValueSerializer) -> Value"""
    v = it.deref(v)
    if isinstance(v, VecV):
        return jarr([serialize_value(it, x) for x in v.items])
    if isinstance(v, bool):
        return jbool(v)
    if isinstance(v, int) or z3.is_expr(v) or isinstance(v, Opaque):
        return jnum(v)
    if isinstance(v, str):
        return jstr(v)
    if isinstance(v, Adt) and v.ty == 'Option':
        return jnull() if v.variant == 'None' else serialize_value(it, v.f[0])
    if isinstance(v, (Adt, EnumC)):
        f = it.p.method(v.ty, 'serialize', trait='Serialize')
        r = it.run(f, [Ref(Cell(v)), Adt('ValueSerializer', None, [])])
        if r.variant != 'Ok':
            raise Unsupported('derived serialize returned an error')
        return r.f[0]
    raise Unsupported('serialize %r' % (v,))


@model(r'<__S as .*Serializer>::serialize_struct', r'<\w+ as .*Serializer>::serialize_struct')
def m_ser_struct(it, name, a):
    return ok(Adt('SerStruct', None, [None, MapV('btree')]))


@model(r'<__S as .*Serializer>::serialize_struct_variant', r'<\w+ as .*Serializer>::serialize_struct_variant')
def m_ser_struct_variant(it, name, a):
    return ok(Adt('SerStruct', None, [it.deref(a[3]), MapV('btree')]))


@model(r'<__S as .*Serializer>::serialize_unit_variant', r'<\w+ as .*Serializer>::serialize_unit_variant')
def m_ser_unit_variant(it, name, a):
    return ok(jstr(it.deref(a[3])))


@model(r'<__S as .*Serializer>::serialize_(str|i32|i64|u32|u64|bool|u8|u16|i8|i16)', r'<\w+ as .*Serializer>::serialize_(str|i32|i64|u32|u64|bool|u8|u16|i8|i16)')
def m_ser_prim(it, name, a):
    return ok(serialize_value(it, a[1]))


@model(r'<__S as .*Serializer>::serialize_newtype_variant(::<.*>)?')
def m_ser_newtype_variant(it, name, a):
    return ok(jobj([(it.deref(a[3]), serialize_value(it, a[4]))]))


@model(r'<<__S as .*Serializer>::SerializeStruct(Variant)? as SerializeStruct(Variant)?>::serialize_field(::<.*>)?')
def m_ser_field(it, name, a):
    st = it.deref(a[0])
    key = it.deref(a[1])
    val = serialize_value(it, a[2])
    st.f[1].entries.append([key, Cell(val)])
    return ok(UNIT)


@model(r'<<__S as .*Serializer>::SerializeStruct(Variant)? as SerializeStruct(Variant)?>::end')
def m_ser_end(it, name, a):
    st = a[0]
    obj = Adt('Value', 'Object', [st.f[1]])
    if st.f[0] is not None:
        return ok(jobj([(st.f[0], obj)]))
    return ok(obj)


# --------------------------------------------------------------------------- serde_json::Value surface
@model(exact=('serde_json::Number::as_i64', 'Number::as_i64'))
def m_number_as_i64(it, name, a):
    n = it.deref(a[0])
    if isinstance(n, Opaque):
        n = n.term
    if isinstance(n, float):
        return none()
    if isinstance(n, int):
        if -(1 << 63) <= n < (1 << 63):
            return some(n)
        return none()
    if z3.is_expr(n) and z3.is_bv(n):
        if n.size() == 64:
            return some(n)
        return some(z3.SignExt(64 - n.size(), n))
    raise Unsupported('Number %r' % (n,))


@model(exact=('serde_json::Number::as_u64', 'Number::as_u64', 'serde_json::Number::as_f64', 'Number::as_f64', 'serde_json::Number::is_i64', 'serde_json::Number::is_u64',
              'Number::is_i64', 'Number::is_u64', 'serde_json::Number::is_f64', 'Number::is_f64'))
def m_number_misc(it, name, a):
    n = it.deref(a[0])
    op = _meth(name)
    if isinstance(n, Opaque):
        n = n.term
    if z3.is_expr(n) and z3.is_bv(n) and op in ('as_u64', 'is_u64', 'is_i64', 'is_f64'):
        # a symbolic number comes from a serialised signed integer: serde_json stores it as PosInt when >= 0, NegInt otherwise
        if op == 'is_i64':
            return True
        if op == 'is_f64':
            return False
        w = n if n.size() == 64 else z3.SignExt(64 - n.size(), n)
        nonneg = it.decide(w >= 0)
        if op == 'is_u64':
            return nonneg
        return some(w) if nonneg else none()
    if not isinstance(n, (int, float)):
        raise Unsupported('symbolic Number::' + op)
    if op == 'as_u64':
        return some(n) if isinstance(n, int) and 0 <= n < (1 << 64) else none()
    if op == 'as_f64':
        return some(float(n))
    if op == 'is_i64':
        return isinstance(n, int) and -(1 << 63) <= n < (1 << 63)
    if op == 'is_f64':
        return isinstance(n, float)
    return isinstance(n, int) and 0 <= n < (1 << 64)


@model(r'serde_json::Value::as_(str|i64|u64|bool|array|object|f64)', r'Value::as_(str|i64|u64|bool|array|object|f64)',
       r'serde_json::Value::is_(string|number|array|object|null|boolean|i64|u64|f64)', r'Value::is_(string|number|array|object|null|boolean|i64|u64|f64)')
def m_value_as(it, name, a):
    v = it.deref(a[0])
    op = _meth(name)
    want = {'as_str': 'String', 'as_bool': 'Bool', 'as_array': 'Array', 'as_object': 'Object',
            'is_string': 'String', 'is_number': 'Number', 'is_array': 'Array', 'is_object': 'Object', 'is_null': 'Null', 'is_boolean': 'Bool'}
    if op.startswith('is_') and op in want:
        return v.variant == want[op]
    if op in want:
        if v.variant != want[op]:
            return none()
        if op in ('as_array', 'as_object'):
            r = innermost_ref(it, a[0])
            return some(Ref(r.cell, r.path + (('f', 0),)))
        return some(v.f[0])
    if op in ('as_i64', 'as_u64', 'as_f64', 'is_i64', 'is_u64', 'is_f64'):
        if v.variant != 'Number':
            return none() if op.startswith('as_') else False
        return (m_number_as_i64 if op == 'as_i64' else m_number_misc)(it, 'Number::' + op, [v.f[0]])
    raise Unsupported(name)


@model(exact=('serde_json::Value::get', 'Value::get'))
def m_value_get(it, name, a):
    v = it.deref(a[0])
    k = it.deref(a[1])
    if v.variant == 'Object' and isinstance(k, str):
        for ek, c in v.f[0].entries:
            if ek == k:
                return some(Ref(c))
        return none()
    if v.variant == 'Array' and isinstance(k, int):
        r = innermost_ref(it, a[0])
        if k < len(v.f[0].items):
            return some(Ref(r.cell, r.path + (('f', 0), ('i', k))))
    return none()


@model(r'<(serde_json::)?Value as Clone>::clone', r'<(serde_json::)?Map<.*> as Clone>::clone')
def m_value_clone(it, name, a):
    return clone_val(it.deref(a[0]))


@model(r'(serde_json::)?(value::)?to_value(::<.*>)?')
def m_to_value(it, name, a):
    return ok(serialize_value(it, a[0]))


@model(r'<(serde_json::)?Value as From<.*>>::from', r'<.* as Into<(serde_json::)?Value>>::into')
def m_value_from(it, name, a):
    v = a[0]
    if isinstance(v, Adt) and v.ty == 'Value':
        return v
    if isinstance(v, MapV):
        return Adt('Value', 'Object', [v])
    return serialize_value(it, v)


@model(r'<(serde_json::)?Value as (Display|Debug)>::fmt', r'<(serde_json::)?Value as ToString>::to_string')
def m_value_display(it, name, a):
    import json as _json
    try:
        return _json.dumps(to_python(it.deref(a[0])), default=str)
    except Exception:
        return '<json value>'
