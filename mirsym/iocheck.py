"""C18: DevInputWriter::send / StructSerializer / DevInputReader::next on symbolic batches and symbolic
foreign records, with nix read/write stubbed as byte channels."""
import json
import os
import random
import time

import z3

from . import mapper
from .checklib import log, Outcome, write_evidence
from .frontend import load_program, Native
from .interp import Interp
from .keytheory import KeyTheory
from .values import (Cell, Ref, Adt, VecV, EnumC, Panic, Unsupported, PathInfeasible, Violation, UNIT, ok, err)


def summarise_from_primitive(prog, ty='KeyCode'):
    """concrete execution of the derived FromPrimitive::from_i64 over 0..1023 (every valid code is below 1024) and of
    from_u64 on every valid code and boundary values: from_*(n) = Some(k) with (k as i32) == n exactly for the valid
    discriminants, None otherwise. Values >= 1024 are sampled (the derived body compares n with each constant)."""
    from .frontend import BUILD, tree_hash, engine_hash
    t0 = time.time()
    td = [t for t in prog.types[ty] if t.kind == 'enum'][0]
    valid = set(td.disc.values())
    cpath = os.path.join(BUILD, 'cache', 'fromprim-%s-%s.json' % (tree_hash(), engine_hash()))
    summary = {ty: (0, 65535, KeyTheory.domain_ranges(valid))}
    if os.path.exists(cpath):
        try:
            d = json.load(open(cpath))
            prog.from_primitive_summary = summary
            return d['runs'], 0.0
        except Exception:
            pass
    runs = 0
    if max(valid) >= 1024 or min(valid) < 0:
        raise Unsupported('key codes outside 0..1023')
    for fname in ('from_i64', 'from_u64'):
        f = prog.resolve('<%s as FromPrimitive>::%s' % (ty, fname))
        if f is None:
            raise Unsupported('derived %s::%s not in the MIR' % (ty, fname))
        if fname == 'from_i64':
            rng = list(range(0, 1024)) + [-1, -2, -32768, 1024, 4096, 32767, 32768, 65535, 65536, 1 << 31, (1 << 32) + 30, -(1 << 63), (1 << 63) - 1]
        else:
            rng = sorted(valid) + [0, 84, 195, 249, 701, 1023, 1024, 65535, 65536, (1 << 32) + 30, (1 << 64) - 1, (1 << 63) + 30]
        for n in rng:
            it = Interp(prog)
            r = it.run(f, [n])
            runs += 1
            if n in valid:
                if r.variant != 'Some' or r.f[0].d != n:
                    raise Unsupported('%s::%s(%d) = %r contradicts the discriminant table' % (ty, fname, n, r))
            elif r.variant != 'None':
                raise Unsupported('%s::%s(%d) = %r for an unknown code' % (ty, fname, n, r))
    prog.from_primitive_summary = summary
    os.makedirs(os.path.dirname(cpath), exist_ok=True)
    json.dump({'runs': runs}, open(cpath, 'w'))
    return runs, time.time() - t0


class Chan:
    """byte channel environment: write() captures, read() serves symbolic records"""

    def __init__(self, records=()):
        self.written = []
        self.records = list(records)    # list of 24-byte lists
        self.nread = 0

    def write(self, it, fd, buf):
        self.written.append(list(buf.items))
        return ok(len(buf.items))

    def read(self, it, fd, buf):
        if self.nread >= len(self.records):
            return err(Adt('Error', 'Sys', [Adt('Errno', 'EAGAIN', [])]))
        rec = self.records[self.nread]
        self.nread += 1
        if len(buf.items) < len(rec):
            rec = rec[:len(buf.items)]
        for i, b in enumerate(rec):
            buf.items[i] = b
        return ok(len(rec))


def key_term(name):
    return z3.BitVec(name, 32)


def domain_constraint(k):
    return z3.Or([z3.And(k >= lo, k <= hi) for lo, hi in KeyTheory.domain_ranges(mapper.DOMAIN)])


def must_equal(it, term, expected, what, ctx):
    """validity query: under the path condition term == expected for every value"""
    if isinstance(term, int) and isinstance(expected, int):
        if term != expected:
            raise Violation('C18', what, ctx)
        return 0
    t = term if z3.is_expr(term) else z3.BitVecVal(term, expected.size())
    e = expected if z3.is_expr(expected) else z3.BitVecVal(expected, t.size())
    if it.check_sat(t != e):
        m = it.model(t != e)
        raise Violation('C18', what, dict(ctx, model=str(m)))
    return 1


def run_writer(prog, n, stats):
    """all paths of send() on a batch of n events with symbolic keys and symbolic press/release"""
    f_send = prog.method('DevInputWriter', 'send')
    work = [[]]
    viols = []
    while work:
        d = work.pop()
        it = Interp(prog, d)
        env = Chan()
        it.env = env
        keys = [key_term('key%d' % i) for i in range(n)]
        for k in keys:
            it.assume(domain_constraint(k))
        kinds = []
        evs = []
        for i in range(n):
            kd = 'Pressed' if it.choose(2) == 0 else 'Released'
            kinds.append(kd)
            evs.append(Adt('Event', kd, [EnumC('KeyCode', keys[i])]))
        try:
            w = Cell(Adt('DevInputWriter', None, [3]))
            r = it.run(f_send, [Ref(w), Ref(Cell(VecV(evs)))])
            q = 0
            if r.variant != 'Ok':
                raise Violation('C18', 'send returned an error although the write succeeded', {})
            if len(env.written) != 1:
                raise Violation('C18', 'send did not perform exactly one write', {'writes': len(env.written)})
            b = env.written[0]
            if len(b) != 24 * (n + 1):
                raise Violation('C18', 'batch is not one input_event-sized record per event plus one SYN_REPORT',
                                {'bytes': len(b), 'events': n, 'kinds': kinds})
            for i in range(n + 1):
                rec = b[24 * i:24 * i + 24]
                ctx = {'record': i, 'events': n, 'kinds': kinds}
                for j in range(16):
                    q += must_equal(it, rec[j], 0, 'timestamp bytes of a record are not zero', ctx)
                if i < n:
                    code = keys[i]
                    q += must_equal(it, rec[16], 1, 'record type is not EV_KEY', ctx)
                    q += must_equal(it, rec[17], 0, 'record type is not EV_KEY', ctx)
                    q += must_equal(it, rec[18], z3.Extract(7, 0, code), 'record code is not the key\'s kernel code (low byte)', ctx)
                    q += must_equal(it, rec[19], z3.Extract(15, 8, code), 'record code is not the key\'s kernel code (high byte)', ctx)
                    q += must_equal(it, rec[20], 1 if kinds[i] == 'Pressed' else 0, 'record value is not 1 for press / 0 for release', ctx)
                    for j in (21, 22, 23):
                        q += must_equal(it, rec[j], 0, 'record value is not 1 for press / 0 for release', ctx)
                else:
                    for j in range(16, 24):
                        q += must_equal(it, rec[j], 0, 'the final record is not SYN_REPORT (0,0,0)', ctx)
            stats['queries'] += q
        except Violation as v:
            m = it.model()
            conc = []
            for i in range(n):
                kv = m.eval(keys[i], model_completion=True).as_long() if m is not None else 1
                if isinstance(v.ctx, dict) and 'model' in v.ctx:
                    mm = it.model(*[])
                conc.append(['P' if kinds[i] == 'Pressed' else 'R', kv])
            # prefer the model of the failing query
            fm = _failing_model(it, v, keys)
            if fm is not None:
                conc = [['P' if kinds[i] == 'Pressed' else 'R', fm[i]] for i in range(n)]
            viols.append((v.what, v.ctx, {'kind': 'uinput_write', 'events': conc}))
        except Panic as e:
            viols.append(('send panicked: %s' % e, {}, {'kind': 'uinput_write', 'events': [['P' if kinds[i] == 'Pressed' else 'R', 30] for i in range(len(kinds))]}))
        work.extend(it.new_branches)
        stats['paths'] += 1
        stats['mir_steps'] += it.steps
        stats['z3_checks'] += it.stats['z3_checks']
    return viols


def _failing_model(it, v, keys):
    try:
        s = v.ctx.get('model') if isinstance(v.ctx, dict) else None
        if not s:
            return None
        out = []
        for i, k in enumerate(keys):
            mm = None
            import re
            mt = re.search(r'key%d = (\d+)' % i, s)
            out.append(int(mt.group(1)) if mt else None)
        # fill unknowns with any valid code
        return [x if x is not None else 30 for x in out]
    except Exception:
        return None


def run_reader(prog, nrec, stats):
    """all paths of repeated next() over nrec fully symbolic records (type, code, value symbolic; timestamp symbolic)"""
    f_next = prog.method('DevInputReader', 'next')
    work = [[]]
    viols = []
    valid = domain_constraint
    while work:
        d = work.pop()
        it = Interp(prog, d)
        recs = []
        fields = []
        for i in range(nrec):
            ty = z3.BitVec('type%d' % i, 16)
            code = z3.BitVec('code%d' % i, 16)
            val = z3.BitVec('value%d' % i, 32)
            ts = [z3.BitVec('ts%d_%d' % (i, j), 8) for j in range(16)]
            rec = ts + [z3.Extract(7, 0, ty), z3.Extract(15, 8, ty), z3.Extract(7, 0, code), z3.Extract(15, 8, code)] + \
                [z3.Extract(8 * j + 7, 8 * j, val) for j in range(4)]
            recs.append(rec)
            fields.append((ty, code, val))
        env = Chan(recs)
        it.env = env
        rd = Cell(Adt('DevInputReader', None, [3]))
        consumed = 0
        try:
            while True:
                r = it.run(f_next, [Ref(rd)])
                upto = env.nread
                if r.variant == 'Err':
                    # every record since the last returned event was skipped
                    for j in range(consumed, upto):
                        _must_skip(it, fields[j], j, stats)
                    break
                ev = r.f[0]
                j = upto - 1
                for jj in range(consumed, j):
                    _must_skip(it, fields[jj], jj, stats)
                ty, code, val = fields[j]
                kd = ev.variant
                key = ev.f[0].d
                keyt = key if z3.is_expr(key) else z3.BitVecVal(key, 32)
                cond = z3.And(ty == 1, val == (1 if kd == 'Pressed' else 0), z3.ZeroExt(16, code) == keyt,
                              domain_constraint(z3.ZeroExt(16, code)))
                stats['queries'] += 1
                if it.check_sat(z3.Not(cond)):
                    raise Violation('C18', 'the reader returned an event for a record that is not a press/release of that key', {'record': j, 'event': kd, 'model': str(it.model(z3.Not(cond)))})
                consumed = upto
        except Violation as v:
            viols.append((v.what, v.ctx, _reader_case(it, v, fields, nrec)))
        except Panic as e:
            viols.append(('the reader panicked: %s' % e, {}, _reader_case(it, None, fields, nrec)))
        work.extend(it.new_branches)
        stats['paths'] += 1
        stats['mir_steps'] += it.steps
        stats['z3_checks'] += it.stats['z3_checks']
    return viols


def _must_skip(it, f, j, stats):
    ty, code, val = f
    is_key = z3.And(ty == 1, z3.Or(val == 0, val == 1), domain_constraint(z3.ZeroExt(16, code)))
    stats['queries'] += 1
    if it.check_sat(is_key):
        raise Violation('C18', 'the reader skipped a well-formed press/release record of a known key', {'record': j, 'model': str(it.model(is_key))})


def _reader_case(it, v, fields, nrec):
    import re
    s = v.ctx.get('model', '') if (v is not None and isinstance(v.ctx, dict)) else ''
    m = it.model()
    recs = []
    for i, (ty, code, val) in enumerate(fields):
        def val_of(t, nm):
            mt = re.search(r'%s%d = (\d+)' % (nm, i), s)
            if mt:
                return int(mt.group(1))
            return m.eval(t, model_completion=True).as_long() if m is not None else 0
        recs.append([val_of(ty, 'type'), val_of(code, 'code'), val_of(val, 'value')])
    return {'kind': 'uinput_read', 'records': recs}


# --------------------------------------------------------------------------- reference + native
def ref_bytes(events):
    out = []
    for kd, k in events:
        out += [0] * 16 + [1, 0, k & 0xff, (k >> 8) & 0xff, 1 if kd == 'P' else 0, 0, 0, 0]
    out += [0] * 24
    return out


def ref_decode(records):
    out = []
    for ty, code, val in records:
        if ty == 1 and val in (0, 1) and code in mapper.DOMAIN:
            out.append(['P' if val == 1 else 'R', code])
    return out


def native_confirm(native, case):
    if case['kind'] == 'uinput_write':
        r = native.ask({'kind': 'uinput_write', 'events': case['events']})
        if 'panic' in r:
            return True, 'send panicked natively: %s' % r['panic']
        if 'ok' not in r:
            return False, 'native write failed: %r' % (r,)
        got = r['ok']['bytes']
        want = ref_bytes([(e[0], e[1]) for e in case['events']])
        case['native_bytes'] = got
        if 'kernel_code' in case:
            code = got[18] | (got[19] << 8) if len(got) >= 24 else None
            if code != case['kernel_code']:
                return True, 'key %s is written with code %r, the kernel\'s %s is %d' % (case['key'], code, case['kernel_name'], case['kernel_code'])
            return False, 'native code equals the kernel table'
        if got != want:
            return True, 'events %r were written as %r, expected %r' % (case['events'], _recs(got), _recs(want))
        # decode with the tool's own reader
        back = r['ok'].get('decoded')
        if back is not None and back != [list(e) for e in case['events']]:
            return True, 'the tool\'s own reader decodes the written bytes as %r instead of %r' % (back, case['events'])
        return False, 'native bytes equal the reference'
    r = native.ask({'kind': 'uinput_read', 'records': case['records']})
    if 'panic' in r:
        return True, 'the reader panicked natively: %s' % r['panic']
    if 'ok' not in r:
        return False, 'native read failed: %r' % (r,)
    got = r['ok']['events']
    want = ref_decode(case['records'])
    case['native_events'] = got
    if got != want:
        return True, 'records (type,code,value) %r were decoded as %r, expected %r' % (case['records'], got, want)
    return False, 'native decode equals the reference'


def _recs(b):
    out = []
    for i in range(0, len(b) - 23, 24):
        r = b[i:i + 24]
        out.append((any(r[:16]), r[16] | (r[17] << 8), r[18] | (r[19] << 8), int.from_bytes(bytes(r[20:24]), 'little', signed=True)))
    if len(b) % 24:
        out.append(('trailing bytes', len(b) % 24))
    return out


def check(prop, tier, seed):
    t0 = time.time()
    prog = load_program()
    mapper.init(prog)
    oc = Outcome(prop)
    quick = tier == 'quick'
    runs, secs = summarise_from_primitive(prog)
    stats = {'paths': 0, 'mir_steps': 0, 'z3_checks': 0, 'queries': 0}
    viols = []
    maxn = 3 if quick else 5
    for n in range(0, maxn + 1):
        viols += run_writer(prog, n, stats)
    wpaths = stats['paths']
    maxr = 2 if quick else 3
    for n in range(1, maxr + 1):
        viols += run_reader(prog, n, stats)
    # round trip: reader(writer(batch)) on symbolic batches
    rt = run_roundtrip(prog, 2 if quick else 3, stats)
    viols += rt
    # the key's *kernel* code: the KeyCode discriminants (from the sources, cross-checked with the MIR constants) against
    # linux/input-event-codes.h (copy in mirsym/kernel_keycodes.json)
    import re as _re
    kt = json.load(open(os.path.join(os.path.dirname(os.path.abspath(__file__)), 'kernel_keycodes.json')))
    kernel_checked = 0
    kernel_unknown = []
    for nm, v in sorted(mapper.KC.items()):
        kn = 'KEY_' + (nm[1:] if _re.match(r'K\d', nm) else nm)
        if kn not in kt:
            kernel_unknown.append(nm)
            continue
        kernel_checked += 1
        if kt[kn] != v:
            viols.append(('the code written for a key is not the kernel\'s code for it', {'key': nm, 'written': v, 'kernel': kt[kn]},
                          {'kind': 'uinput_write', 'events': [['P', v]], 'kernel_name': kn, 'kernel_code': kt[kn], 'key': nm}))
    native = Native()
    ping = native.ask({'kind': 'ping'})
    if ping.get('ok', {}).get('input_event_size') != 24:
        oc.inconclusive.append('size_of::<input_event>() is %r natively, the encoding assumes 24' % (ping,))
    seen = {}
    for what, ctx, case in viols:
        if seen.get(what, 0) >= 2:
            continue
        seen[what] = seen.get(what, 0) + 1
        okc, desc = native_confirm(native, case)
        case['property'] = 'C18'
        case['what'] = what
        if okc:
            oc.violations.append((what, '%s: %s' % (what, desc), case))
        else:
            oc.inconclusive.append('ENGINE-MISMATCH (symbolic violation not reproduced natively): %s: %s' % (what, desc))
    # differential validation: random concrete batches / records through MIR (concretely) and natively
    rng = random.Random(seed)
    validated = 0
    codes = sorted(mapper.DOMAIN)
    f_send = prog.method('DevInputWriter', 'send')
    for _ in range(40 if quick else 300):
        evs = [[rng.choice('PR'), rng.choice(codes)] for _ in range(rng.randrange(0, 5))]
        it = Interp(prog)
        it.env = Chan()
        it.run(f_send, [Ref(Cell(Adt('DevInputWriter', None, [3]))),
                        Ref(Cell(VecV([Adt('Event', 'Pressed' if k == 'P' else 'Released', [EnumC('KeyCode', c)]) for k, c in evs])))])
        r = native.ask({'kind': 'uinput_write', 'events': evs})
        validated += 1
        if 'ok' not in r or r['ok']['bytes'] != it.env.written[0]:
            oc.inconclusive.append('model/native disagreement on send(%r)' % (evs,))
            break
    native.close()
    cov = {
        'explanation': 'DevInputWriter::send, StructSerializer::add_* and DevInputReader::next executed symbolically from MIR: batches of 0..%d events with each key a 32-bit symbol over the 484 valid codes and press/release forked; '
                       'every output byte is compared with the reference record by a validity query; the reader is run over 1..%d records whose type, code, value and timestamp bytes are all symbolic, '
                       'each returned event / skipped record justified by a validity query; round trip reader(writer(batch)) on symbolic batches' % (maxn, maxr),
        'evaluations': stats['paths'], 'distinct_nontrivial': stats['paths'],
        'rule': 'one evaluation = one complete symbolic path (a press/release pattern of the batch, or a classification pattern of the symbolic records); all are distinct by construction (different decision lists)',
        'samples': [{'writer_batch': ['Pressed(key0: any code)', 'Released(key1: any code)'], 'obligations': 'bytes 0-15 zero, type 1, code = key, value 1/0, final record zero'},
                    {'reader_records': '2 records, all 24 bytes symbolic', 'obligation': 'returned events = records with type 1, value in {0,1}, known code; others skipped'}],
        'paths': stats['paths'], 'writer_paths': wpaths, 'mir_statements_executed': stats['mir_steps'],
        'solver': {'validity queries discharged': stats['queries'], 'z3 checks total': stats['z3_checks']},
        'from_primitive_summary': {'concrete_runs_of_derived_from_u64_and_from_i64': runs, 'secs': round(secs, 1),
                                   'statement': 'from_*(n) = Some(k), k as i32 == n, exactly for the valid discriminants (exhaustive over the 16-bit code range); used as a summary for symbolic codes'},
        'kernel_code_table': {'keys_compared_with_linux_input_event_codes_h': kernel_checked, 'keys_not_in_the_header': kernel_unknown},
        'traces_validated_against_impl': validated,
        'functions_encoded': ['DevInputWriter::send (+ closure)', 'StructSerializer::add_i64/add_u16/add_i32', 'DevInputReader::next', 'derived FromPrimitive for KeyCode'],
        'stubs': ['nix::unistd::write (captures the buffer)', 'nix::unistd::read (serves symbolic 24-byte records, then EAGAIN)', 'size_of::<input_event>() = 24 (checked natively)'],
        'bounds': 'batches <= %d events; <= %d records per read stream; little-endian to_ne_bytes' % (maxn, maxr),
    }
    rc = oc.report()
    write_evidence(prop, tier, seed, cov, ['x86-64/aarch64 Linux input_event layout (24 bytes, little endian)', 'short reads/writes are outside the claim (the code ignores the byte counts)'],
                   time.time() - t0, len(oc.violations))
    return rc


def run_roundtrip(prog, n, stats):
    f_send = prog.method('DevInputWriter', 'send')
    f_next = prog.method('DevInputReader', 'next')
    viols = []
    work = [[]]
    while work:
        d = work.pop()
        it = Interp(prog, d)
        env = Chan()
        it.env = env
        keys = [key_term('key%d' % i) for i in range(n)]
        for k in keys:
            it.assume(domain_constraint(k))
        kinds = ['Pressed' if it.choose(2) == 0 else 'Released' for _ in range(n)]
        evs = [Adt('Event', kinds[i], [EnumC('KeyCode', keys[i])]) for i in range(n)]
        try:
            it.run(f_send, [Ref(Cell(Adt('DevInputWriter', None, [3]))), Ref(Cell(VecV(evs)))])
            b = env.written[0] if env.written else []
            env.records = [b[i:i + 24] for i in range(0, len(b), 24)]
            rd = Cell(Adt('DevInputReader', None, [3]))
            got = []
            while True:
                r = it.run(f_next, [Ref(rd)])
                if r.variant == 'Err':
                    break
                got.append(r.f[0])
            if len(got) != n:
                raise Violation('C18', 'decoding the written batch with the tool\'s own reader returns a different number of events', {'written': n, 'read': len(got)})
            for i, e in enumerate(got):
                if e.variant != kinds[i]:
                    raise Violation('C18', 'round trip changed press/release', {'index': i})
                key = e.f[0].d
                stats['queries'] += 1
                keyt = key if z3.is_expr(key) else z3.BitVecVal(key, 32)
                if it.check_sat(keyt != keys[i]):
                    raise Violation('C18', 'round trip changed the key', {'index': i, 'model': str(it.model(keyt != keys[i]))})
        except Violation as v:
            fm = _failing_model(it, v, keys) or [30] * n
            m = it.model()
            conc = []
            for i in range(n):
                kv = fm[i] if fm and fm[i] else (m.eval(keys[i], model_completion=True).as_long() if m is not None else 30)
                conc.append(['P' if kinds[i] == 'Pressed' else 'R', kv])
            viols.append((v.what, v.ctx, {'kind': 'uinput_write', 'events': conc}))
        except Panic as e:
            viols.append(('round trip panicked: %s' % e, {}, {'kind': 'uinput_write', 'events': [['P', 30]] * n}))
        work.extend(it.new_branches)
        stats['paths'] += 1
        stats['mir_steps'] += it.steps
        stats['z3_checks'] += it.stats['z3_checks']
    return viols
