"""Symbolic fixpoint exploration of the real Mapper (MIR of Mapper::for_layout / step / release_all).

Events carry symbolic key codes over all valid KeyCode discriminants; states are subsumed at
step boundaries by canonical renaming of the symbols together with their constraints, so a
level that adds no new canonical state is a fixpoint: every history of any length with at most
N keys held has been covered (DESIGN.md 2.3, 6.3).
"""
import hashlib
import os
import pickle
import random
import time
import multiprocessing as mp

from .values import (Cell, Ref, Adt, VecV, MapV, EnumC, Sym, Opaque, Panic, Unsupported, PathInfeasible, clone_val)
from .interp import Interp
from .keytheory import KeyTheory
from .monitors import Mon, ConcreteQ, MOD_NAMES, MAPPER_PROPS

PROG = None          # set by init()
KC = None            # name -> discriminant
INV = None
DOMAIN = None
MODS = None
F_FOR_LAYOUT = F_STEP = F_RELEASE_ALL = None


def init(prog):
    global PROG, KC, INV, DOMAIN, MODS, F_FOR_LAYOUT, F_STEP, F_RELEASE_ALL
    PROG = prog
    td = [t for t in prog.types['KeyCode'] if t.kind == 'enum'][0]
    KC = dict(td.disc)
    INV = {v: k for k, v in KC.items()}
    DOMAIN = frozenset(KC.values())
    MODS = [KC[n] for n in MOD_NAMES]
    F_FOR_LAYOUT = prog.method('Mapper', 'for_layout')
    F_STEP = prog.method('Mapper', 'step')
    F_RELEASE_ALL = prog.method('Mapper', 'release_all')
    check_keycode_table(prog)


def check_keycode_table(prog):
    """cross-check the discriminants read from the source against the MIR constants"""
    n = 0
    for name, f in prog.funcs.items():
        if name.startswith('const KeyCode::') and name.endswith('::{constant#0}'):
            var = name[len('const KeyCode::'):-len('::{constant#0}')]
            n += 1
            if var not in KC:
                raise Unsupported('KeyCode variant %s in MIR but not in the source table' % var)
    if n and n != len(KC):
        raise Unsupported('KeyCode table mismatch: %d in MIR, %d in source' % (n, len(KC)))


# --------------------------------------------------------------------------- layout specs
class Spec:
    """a layout to explore. keys are ints or symbol names ('a0', ...): distinct names are distinct
    non-modifier keys, distinct from every constant of the layout (asserted at the root)."""

    def __init__(self, name, maps, N=3, depth=14, alphabet=None, note='', no_foreign=False):
        self.name = name
        self.no_foreign = no_foreign   # event keys restricted to the alphabet (no foreign keys)
        self.maps = maps            # list of dict(frm, to, rep, absb)
        self.N = N
        self.depth = depth
        self.alphabet = alphabet    # None or list of layout keys event keys may take (plus foreign keys)
        self.note = note
        for i, m in enumerate(self.maps):
            m['idx'] = i
            m.setdefault('absb', [])
            m.setdefault('rep', ('Normal', None, None, None))

    def sym_names(self):
        out = []
        for m in self.maps:
            for k in m['frm'] + m['to'] + m['absb'] + list(m['rep'][1] or ()):
                if isinstance(k, str) and k not in out:
                    out.append(k)
        return out

    def const_keys(self):
        out = []
        for m in self.maps:
            for k in m['frm'] + m['to'] + m['absb'] + list(m['rep'][1] or ()):
                if isinstance(k, int) and k not in out:
                    out.append(k)
        return out

    def opaques(self):
        out = []
        for m in self.maps:
            for v in m['rep'][2:]:
                if isinstance(v, Opaque) and v.name not in [o.name for o in out]:
                    out.append(v)
        return out

    def with_numbers(self):
        """concrete variants of a template's symbolic repeat timings (used only when the tree under test branches on them
        while building the mapper): ordinary, zero, negative, largest"""
        out = []
        for tag, (d, i_) in (('130-30', (130, 30)), ('0-0', (0, 0)), ('neg', (-5, -3)), ('max', (2147483647, 2147483647))):
            maps = []
            for m in self.maps:
                rep = m['rep']
                if rep[0] == 'Special':
                    rep = (rep[0], list(rep[1]), d if isinstance(rep[2], Opaque) else rep[2], i_ if isinstance(rep[3], Opaque) else rep[3])
                maps.append(dict(frm=list(m['frm']), to=list(m['to']), rep=rep, absb=list(m['absb'])))
            out.append(Spec('%s@%s' % (self.name, tag), maps, N=self.N, depth=self.depth, alphabet=self.alphabet,
                            note=self.note + '; concrete repeat timings (the tree branches on them while building the mapper)', no_foreign=self.no_foreign))
        return out

    def instantiate(self, rng):
        """one concrete instance of a template (used when the tree under test does arithmetic on key codes, so that
        Mapper::for_layout cannot run on symbolic layout keys): distinct non-modifier codes outside the layout's constants,
        the first ones taken from the ends of the code range and next to 2^8 / 2^9"""
        names = self.sym_names()
        used = set(self.const_keys()) | set(MODS)
        dom = sorted(v for v in DOMAIN if v not in used)
        pool = [dom[-1]]
        for b in (512, 256):
            hi = [v for v in dom if v >= b]
            if hi:
                pool.append(hi[0])
        rest = [v for v in dom if v not in pool and 2 <= v < 200]
        rng.shuffle(rest)
        pool = pool + rest
        sub = {n: pool[i] for i, n in enumerate(names)}
        f = lambda k: sub.get(k, k) if isinstance(k, str) else k
        maps = []
        for m in self.maps:
            rep = m['rep']
            if rep[0] == 'Special':
                rep = (rep[0], [f(k) for k in rep[1]], rep[2], rep[3])
            maps.append(dict(frm=[f(k) for k in m['frm']], to=[f(k) for k in m['to']], rep=rep, absb=[f(k) for k in m['absb']]))
        sp = Spec(self.name + ('@instance' if '@' not in self.name else '+instance'), maps, N=self.N, depth=self.depth, alphabet=None if self.alphabet is None else [f(k) for k in self.alphabet],
                  note=self.note + '; concrete instance (the tree does arithmetic on key codes)', no_foreign=self.no_foreign)
        return sp

    def describe(self):
        def kn(k):
            return INV.get(k, str(k)) if isinstance(k, int) else '$' + k
        out = []
        for m in self.maps:
            rep = m['rep']
            r = rep[0] if rep[0] != 'Special' else 'Special(%s,%s,%s)' % ([kn(x) for x in rep[1]], rep[2], rep[3])
            out.append('%s->%s%s%s' % ([kn(x) for x in m['frm']], [kn(x) for x in m['to']],
                                        '' if rep[0] == 'Normal' else ' ' + r,
                                        '' if not m['absb'] else ' absorbing ' + str([kn(x) for x in m['absb']])))
        return out


def kval(k):
    return EnumC('KeyCode', k if isinstance(k, int) else Sym(k))


def mapping_val(m):
    rep = m['rep']
    if rep[0] == 'Special':
        r = Adt('Repeat', 'Special', [VecV([kval(x) for x in rep[1]]), rep[2], rep[3]])
    else:
        r = Adt('Repeat', rep[0], [])
    return Adt('Mapping', None, [VecV([kval(x) for x in m['frm']]), VecV([kval(x) for x in m['to']]), r,
                                 VecV([kval(x) for x in m['absb']])])


def layout_val(spec):
    return Adt('Layout', None, [VecV([mapping_val(m) for m in spec.maps])])


def root_theory(spec):
    kt = KeyTheory(DOMAIN)
    names = spec.sym_names()
    consts = spec.const_keys() + [m for m in MODS if m not in spec.const_keys()]
    for i, a in enumerate(names):
        for c in consts:
            kt.assert_lit(a, c, False)
        for b in names[:i]:
            kt.assert_lit(a, b, False)
    return kt


# --------------------------------------------------------------------------- nodes
class Node:
    __slots__ = ('root', 'state', 'mon', 'kt', 'hist', 'nsym', 'outs')

    def __init__(self, root, state, mon, kt, hist, nsym, outs):
        self.root = root
        self.state = state
        self.mon = mon
        self.kt = kt
        self.hist = hist
        self.nsym = nsym
        self.outs = outs      # symbolic outputs of the last step (for differential validation)


def ev_list(it, v):
    out = []
    for e in v.items:
        d = e.f[0].d
        if isinstance(d, Sym):
            d = it.keys.canon(d.name)
        out.append((e.variant, d))
    return out


def rep_tuple(it, r):
    if r.variant == 'Repeating':
        keys = []
        for x in r.f[0].items:
            d = x.d
            if isinstance(d, Sym):
                d = it.keys.canon(d.name)
            keys.append(d)
        return ('Repeating', keys, r.f[1], r.f[2])
    return (r.variant, None, None, None)


def normalise(kt, v):
    """replace key symbols that are pinned to constants / other symbols by their representative"""
    if isinstance(v, EnumC):
        if isinstance(v.d, Sym):
            c = kt.canon(v.d.name)
            if c != v.d.name:
                return EnumC(v.ty, c if isinstance(c, int) else Sym(c))
        return v
    if isinstance(v, Adt):
        v.f = [normalise(kt, x) for x in v.f]
        return v
    if isinstance(v, VecV):
        v.items = [normalise(kt, x) for x in v.items]
        return v
    return v


def canon_sig(kt, state_vals, mon_sigs):
    """canonical form: symbols renamed by first occurrence + their disequality constraints"""
    names = {}

    def key(d):
        if isinstance(d, Sym):
            d = d.name
        if isinstance(d, str):
            d = kt.canon(d)
        if isinstance(d, str) and not d.startswith(('k', 'c')):
            return 'T:' + d         # a template key of the layout: a fixed role, never renamed (only event symbols are)
        if isinstance(d, str):
            n = names.get(d)
            if n is None:
                n = 's%d' % len(names)
                names[d] = n
            return n
        return d

    def walk(v):
        if isinstance(v, EnumC):
            return ('K', key(v.d))
        if isinstance(v, Adt):
            return (v.ty, v.variant, tuple(walk(x) for x in v.f))
        if isinstance(v, VecV):
            return ('V',) + tuple(walk(x) for x in v.items)
        if isinstance(v, Opaque):
            return ('O', v.name)
        if isinstance(v, (int, bool, str)) or v is None:
            return v
        raise Unsupported('value in mapper state cannot be canonicalised: %r' % (v,))
    st = tuple(walk(v) for v in state_vals)
    ms = tuple(f(key) for f in mon_sigs)
    cons = []
    for s, n in list(names.items()):
        ne = kt.ne.get(s, ())
        cons.append((n, tuple(sorted((str(names[x]) if x in names else 'T:' + x) if isinstance(x, str) else str(x)
                                     for x in ne if not isinstance(x, str) or x in names or not x.startswith(('k', 'c'))))))
    return (st, ms, tuple(sorted(cons)))


def sig_digest(sig):
    return hashlib.sha1(repr(sig).encode()).digest()


# --------------------------------------------------------------------------- expansion (runs in workers)
ROOTS = {}      # root id -> (spec, layout_value(hashed), root kt)
OPTS = {}
_PROBED = set()
_NATIVE = None
_RNG = None
_FAST = None


class RootPanic(Exception):
    def __init__(self, what, trace):
        Exception.__init__(self, what)
        self.what = what
        self.trace = list(trace)


def make_root(spec, enabled):
    """run the real Mapper::for_layout on the (possibly symbolic) layout"""
    roots = []
    work = [[]]
    while work:
        d = work.pop()
        it = Interp(PROG, d, keys=root_theory(spec))
        try:
            mapper = it.run(F_FOR_LAYOUT, [Ref(Cell(layout_val(spec)))])
        except Panic as e:
            raise RootPanic('Mapper::for_layout panicked on the layout: %s' % (e,), it.keys.trace)
        except PathInfeasible:
            work.extend(it.new_branches)
            continue
        work.extend(it.new_branches)
        if len(roots) >= 3:
            roots.append(roots[-1])      # the layout constructor forks on the template's symbols: the caller falls back to an instance
            break
        mon = Mon([dict(m) for m in spec.maps], MODS, enabled)
        roots.append((mapper.f[0], Node(None, mapper.f[1], mon, it.keys, [], 0, None), it))
    return roots


def expand(node, spec, layout_v, kinds=('Pressed', 'Released')):
    """all successors of a node. returns (children, stats, violations, samples)"""
    children = []
    viols = []
    stats = {'paths': 0, 'mir_steps': 0, 'pruned': 0, 'key_forks': 0, 'ra_probes': 0, 'z3_path_checks': 0}
    restricted = None
    if spec.alphabet is not None:
        restricted = [c for c in node.mon.layout_keys if c not in spec.alphabet]
    i = len(node.hist)
    for kind in kinds:
        work = [[]]
        while work:
            d = work.pop()
            it = Interp(PROG, d, keys=node.kt.copy())
            mapper = Cell(Adt('Mapper', None, [layout_v, clone_val(node.state)]))
            mon = node.mon.clone()
            k = 'k%d' % node.nsym
            skip = False
            try:
                mon.classify(it, k)
                if restricted is not None and mon.isin(it, k, restricted):
                    skip = True
                elif spec.no_foreign and not mon.isin(it, k, spec.alphabet):
                    skip = True
                elif kind == 'Pressed' and not mon.isin(it, k, mon.P) and len(mon.P) >= spec.N:
                    skip = True
                if not skip:
                    r = it.run(F_STEP, [Ref(mapper), Adt('Event', kind, [kval(k)])])
                    evs = ev_list(it, r.f[0])
                    rep = rep_tuple(it, r.f[1])
                    mon.step(it, i, kind, k, evs, rep)
            except Panic as e:
                viols.append(('PANIC', 'mapper step panicked: %s' % (e,), None, node.hist + [(kind, k)], it.keys))
                work.extend(it.new_branches)
                stats['paths'] += 1
                continue
            except PathInfeasible:
                # outside the explored bound (key symbol cast to an integer: not one of its representative codes)
                work.extend(it.new_branches)
                stats['bound_cuts'] = stats.get('bound_cuts', 0) + 1
                continue
            work.extend(it.new_branches)
            stats['paths'] += 1
            stats['mir_steps'] += it.steps
            stats['key_forks'] += it.stats['key_forks']
            if skip:
                stats['pruned'] += 1
                continue
            hist = node.hist + [(kind, k)]
            for (prop, what, ctx) in mon.viol:
                viols.append((prop, what, ctx, hist, it.keys))
            mon.viol = []
            state = normalise(it.keys, mapper.v.f[1])
            child = Node(node.root, state, mon, it.keys, hist, node.nsym + 1, (evs, rep))
            children.append(child)
    return children, stats, viols


def ra_probe(node, spec, layout_v):
    """run the real release_all from this configuration: C19 strictness of the batch, nothing held
    afterwards (C06/C01); returns (violations, post-RA mapper state)"""
    viols = []
    it = Interp(PROG, [], keys=node.kt.copy())
    mapper = Cell(Adt('Mapper', None, [layout_v, clone_val(node.state)]))
    posts = []
    work = [[]]
    while work:
        d = work.pop()
        it = Interp(PROG, d, keys=node.kt.copy())
        mapper = Cell(Adt('Mapper', None, [layout_v, clone_val(node.state)]))
        try:
            r = it.run(F_RELEASE_ALL, [Ref(mapper)])
        except Panic as e:
            viols.append(('PANIC', 'release_all panicked: %s' % (e,), None, node.hist + [('RA', None)], it.keys))
            work.extend(it.new_branches)
            continue
        except PathInfeasible:
            work.extend(it.new_branches)
            continue
        work.extend(it.new_branches)
        evs = ev_list(it, r)
        V = list(node.mon.V)
        bad = None
        for kd, key in evs:
            held = any(it.keq(x, key) for x in V)
            if kd == 'Pressed':
                if held and bad is None:
                    bad = ('C19', 'release-all batch pressed a key that is already down', (len(node.hist), key))
                V.append(key)
            else:
                if not held and bad is None:
                    bad = ('C19', 'release-all batch released a key that is up', (len(node.hist), key))
                V = [x for x in V if not it.keq(x, key)]
        hist = node.hist + [('RA', None)]
        if bad is not None and 'C19' not in node.mon.dead:
            viols.append(bad + (hist, it.keys))
        if V and 'C06' not in node.mon.dead:
            viols.append(('C06', 'keys still held on the virtual keyboard after release-all', (len(node.hist), list(V)), hist, it.keys))
        posts.append((normalise(it.keys, mapper.v.f[1]), it.keys))
    return viols, posts


def node_sig(node):
    return canon_sig(node.kt, [node.state], [node.mon.sig])


# ---- worker entry points -------------------------------------------------------------------
def _w_init(prog, roots, opts):
    global ROOTS, OPTS, _RNG
    if PROG is None:
        init(prog)
    ROOTS = roots
    OPTS = opts
    _RNG = random.Random(opts.get('seed', 0) * 7919 + os.getpid())


def _w_expand(blob):
    try:
        return _w_expand2(blob)
    except Unsupported as e:
        return None, {'error': str(e)}, [], [], []


def _w_expand2(blob):
    node = pickle.loads(blob)
    spec, layout_v = ROOTS[node.root]
    t0 = time.time()
    children, stats, viols = expand(node, spec, layout_v)
    out = []
    rest = []
    samples = []
    for ch in children:
        sig = node_sig(ch)
        dg = sig_digest(sig)
        if OPTS.get('ra', True) and dg not in _PROBED:
            _PROBED.add(dg)
            if _RNG.random() < OPTS.get('z3_new_states', 1.0):
                # the path condition of every path that reaches a configuration this worker has not seen is re-decided by z3
                global _FAST
                if _FAST is None:
                    from .keytheory import FastChecker
                    _FAST = FastChecker(DOMAIN)
                sat = _FAST.sat(ch.kt.trace)
                stats['z3_path_checks'] += 1
                if not sat:
                    raise Unsupported('the native key theory accepted a path that z3 finds infeasible: %r' % (ch.hist,))
            v2, posts = ra_probe(ch, spec, layout_v) if ch.mon.P or ch.mon.V else ([], [])
            stats['ra_probes'] += 1
            viols.extend(v2)
            for st, kt in posts:
                rs = canon_sig(kt, [st], [])
                rest.append((sig_digest(rs), pickle.dumps((ch.root, st, kt, ch.hist + [('RA', None)]), protocol=4)))
        if not ch.mon.P:
            rs = canon_sig(ch.kt, [ch.state], [])
            rest.append((sig_digest(rs), pickle.dumps((ch.root, ch.state, ch.kt, ch.hist), protocol=4)))
        if _RNG.random() < OPTS.get('sample_rate', 0.02):
            samples.append((ch.root, ch.hist, ch.kt.trace, ch.outs))
        if os.environ.get('VERIF_DEBUG_VALIDATE') == '1':
            global _NATIVE
            from . import mapper_run
            from .frontend import Native
            if _NATIVE is None:
                _NATIVE = Native()
            mm = mapper_run.validate_sample(_NATIVE, spec, (ch.root, ch.hist, ch.kt.trace, ch.outs))
            if mm:
                with open('/tmp/verif-mismatch-%d.txt' % os.getpid(), 'a') as fh:
                    fh.write('MISMATCH %s\nhist %r\nparent hist %r\nparent state %r\nparent P %r V %r\nchild state %r\ntrace %r\npins %r\nparent trace %r\n\n' % (
                        mm, ch.hist, node.hist, node.state, node.mon.P, node.mon.V, ch.state, ch.kt.trace, ch.kt.pin, node.kt.trace))
        out.append((dg, pickle.dumps(ch, protocol=4)))
    vout = [(p, w, repr(c), h, kt.trace, node.root) for (p, w, c, h, kt) in viols]
    stats['secs'] = time.time() - t0
    return out, stats, vout, rest, samples


# --------------------------------------------------------------------------- concretisation / native replay
def solve_trace(trace, extra_syms=()):
    kt = KeyTheory(DOMAIN)
    kt.trace = list(trace)
    return kt.solve(extra_syms)


def concretise(spec, hist, trace, opaque_vals=None):
    """-> (layout json, ops json, model) or None if the path condition is unsat (engine error)"""
    syms = set(spec.sym_names())
    for kind, k in hist:
        if k is not None:
            syms.add(k)
    sat, model = solve_trace(trace, syms)
    if not sat:
        return None

    def kc(k):
        return k if isinstance(k, int) else model[k]

    def ov(v):
        if isinstance(v, Opaque):
            return (opaque_vals or {}).get(v.name, 100 + (sum(ord(ch) * (i_ + 1) for i_, ch in enumerate(v.name)) % 50))
        return v
    lay = []
    for m in spec.maps:
        rep = m['rep']
        if rep[0] == 'Special':
            r = {'keys': [kc(x) for x in rep[1]], 'delay_ms': ov(rep[2]), 'interval_ms': ov(rep[3])}
        else:
            r = rep[0]
        lay.append({'from': [kc(x) for x in m['frm']], 'to': [kc(x) for x in m['to']], 'repeat': r,
                    'absorbing': [kc(x) for x in m['absb']]})
    ops = []
    for kind, k in hist:
        if kind == 'RA':
            ops.append(['RA'])
        else:
            ops.append(['P' if kind == 'Pressed' else 'R', kc(k)])
    return lay, ops, model


def concrete_maps(lay):
    maps = []
    for i, m in enumerate(lay):
        r = m['repeat']
        rep = ('Special', list(r['keys']), r['delay_ms'], r['interval_ms']) if isinstance(r, dict) else (r, None, None, None)
        maps.append(dict(frm=list(m['from']), to=list(m['to']), rep=rep, absb=list(m['absorbing']), idx=i))
    return maps


def judge_native(lay, ops, native_steps, enabled=MAPPER_PROPS):
    """run the same monitors concretely over the native outputs -> list of (prop, what, ctx)"""
    q = ConcreteQ()
    mon = Mon(concrete_maps(lay), MODS, enabled)
    viol = []
    for i, (op, st) in enumerate(zip(ops, native_steps)):
        evs = [('Pressed' if e[0] == 'P' else 'Released', e[1]) for e in st['events']]
        if op[0] == 'RA':
            V = list(mon.V)
            for kd, key in evs:
                if kd == 'Pressed':
                    if key in V:
                        viol.append(('C19', 'release-all batch pressed a key that is already down', (i, key)))
                    V.append(key)
                else:
                    if key not in V:
                        viol.append(('C19', 'release-all batch released a key that is up', (i, key)))
                    V = [x for x in V if x != key]
            if V:
                viol.append(('C06', 'keys still held on the virtual keyboard after release-all', (i, V)))
            mon = Mon(concrete_maps(lay), MODS, enabled)
            continue
        r = st['repeat']
        rep = ('Repeating', list(r['keys']), r['delay_ms'], r['interval_ms']) if isinstance(r, dict) else (r, None, None, None)
        mon.step(q, i, 'Pressed' if op[0] == 'P' else 'Released', op[1], evs, rep)
        viol.extend(mon.viol)
        mon.viol = []
    return viol


# --------------------------------------------------------------------------- BFS driver (main process)
class Result:
    def __init__(self, spec):
        self.spec = spec
        self.states = 0
        self.transitions = 0
        self.paths = 0
        self.mir_steps = 0
        self.depth = 0
        self.fixpoint = False
        self.viols = []        # (prop, what, ctx, hist, trace)
        self.rest = {}         # digest -> blob
        self.samples = []
        self.secs = 0.0
        self.ra_probes = 0
        self.z3_path_checks = 0
        self.key_forks = 0
        self.levels = []
        self.cut = None
        self.error = None
        self.subsumed = 0
        self.selftest_checked = 0
        self.selftest_failures = 0


def explore_spec(pool, spec, root_id, root_node, deadline=None, max_viols=40, log=None):
    res = Result(spec)
    t0 = time.time()
    root_node.root = root_id
    seen = {sig_digest(node_sig(root_node))}
    frontier = [pickle.dumps(root_node, protocol=4)]
    res.states = 1
    # the initial state is a rest state too
    res.rest[sig_digest(canon_sig(root_node.kt, [root_node.state], []))] = None
    depth = 0
    reservoir = []
    RES_K = 48
    _rs = random.Random(1234 + root_id)
    while frontier and depth < spec.depth:
        nxt = []
        chunk = max(1, min(16, len(frontier) // 64))
        for out, stats, vout, rest, samples in pool.imap_unordered(_w_expand, frontier, chunksize=chunk):
            if out is None:
                res.error = stats['error']
                continue
            res.paths += stats['paths']
            res.mir_steps += stats['mir_steps']
            res.ra_probes += stats['ra_probes']
            res.z3_path_checks += stats.get('z3_path_checks', 0)
            res.key_forks += stats['key_forks']
            res.transitions += len(out)
            for dg, blob in out:
                if dg not in seen:
                    seen.add(dg)
                    nxt.append(blob)
                else:
                    # reservoir sample of subsumed nodes for the closure self-test below
                    res.subsumed += 1
                    if len(reservoir) < RES_K:
                        reservoir.append(blob)
                    else:
                        j = _rs.randrange(res.subsumed)
                        if j < RES_K:
                            reservoir[j] = blob
            for v in vout:
                if len(res.viols) < max_viols or v[0] not in {x[0] for x in res.viols}:
                    res.viols.append(v)
            for dg, blob in rest:
                if dg not in res.rest:
                    res.rest[dg] = blob
            res.samples.extend(samples)
        depth += 1
        res.states += len(nxt)
        res.levels.append(len(nxt))
        frontier = nxt
        if res.error:
            res.cut = 'unsupported construct'
            break
        if log:
            log('  %s depth %d new %d total %d paths %d viol %d %.1fs' % (spec.name, depth, len(nxt), res.states, res.paths, len(res.viols), time.time() - t0))
        if deadline is not None and time.time() > deadline and frontier:
            res.cut = 'time budget'
            break
    res.depth = depth
    res.fixpoint = not frontier
    # subsumption self-test: at a fixpoint the successors of *subsumed* nodes (not only of the representatives that
    # were expanded) must all be known configurations; a miss means the canonical form forgot something the future depends on
    if res.fixpoint and reservoir and not res.error and (deadline is None or time.time() < deadline + 30):
        for out, stats, vout, rest, samples in pool.imap_unordered(_w_expand, reservoir, chunksize=4):
            if out is None:
                continue
            res.selftest_checked += 1
            for dg, blob in out:
                if dg not in seen:
                    res.selftest_failures += 1
    res.secs = time.time() - t0
    return res


# --------------------------------------------------------------------------- C06: product of a stale rest state with a fresh mapper
class PairNode:
    __slots__ = ('root', 'A', 'B', 'P', 'kt', 'hist1', 'hist2', 'nsym')

    def __init__(self, root, A, B, P, kt, hist1, hist2, nsym):
        self.root = root
        self.A = A
        self.B = B
        self.P = P
        self.kt = kt
        self.hist1 = hist1
        self.hist2 = hist2
        self.nsym = nsym


def state_keys(v, out):
    if isinstance(v, EnumC):
        d = v.d
        out.append(d.name if isinstance(d, Sym) else d)
    elif isinstance(v, Adt):
        for x in v.f:
            state_keys(x, out)
    elif isinstance(v, VecV):
        for x in v.items:
            state_keys(x, out)


def pair_sig(n):
    return canon_sig(n.kt, [n.A, n.B], [lambda key: tuple(key(x) for x in n.P)])


def res_sig(kt, r):
    return canon_sig(kt, [r], [])[0]


def expand_pair(node, spec, layout_v, consts, N):
    children = []
    viols = []
    npaths = 0
    restricted = None
    if spec.alphabet is not None:
        lk = []
        for m in spec.maps:
            for k in m['frm'] + m['to'] + m['absb'] + list(m['rep'][1] or ()):
                if k not in lk:
                    lk.append(k)
        restricted = [c for c in lk if c not in spec.alphabet]
    for kind in ('Pressed', 'Released'):
        work = [[]]
        while work:
            d = work.pop()
            it = Interp(PROG, d, keys=node.kt.copy())
            A = Cell(Adt('Mapper', None, [layout_v, clone_val(node.A)]))
            B = Cell(Adt('Mapper', None, [layout_v, clone_val(node.B)]))
            k = 'c%d' % node.nsym
            P = list(node.P)
            skip = False
            try:
                live = []
                state_keys(node.A, live)
                state_keys(node.B, live)
                for c in list(consts) + P + live:
                    if it.keq(k, c):
                        break
                if restricted is not None and any(it.keq(k, c) for c in restricted):
                    skip = True
                elif spec.no_foreign and not any(it.keq(k, c) for c in spec.alphabet):
                    skip = True
                held = any(it.keq(k, x) for x in P)
                if kind == 'Pressed' and not held:
                    if len(P) >= N:
                        skip = True
                    P.append(k)
                if kind == 'Released' and held:
                    P = [x for x in P if not it.keq(x, k)]
                if not skip:
                    ra = it.run(F_STEP, [Ref(A), Adt('Event', kind, [kval(k)])])
                    rb = it.run(F_STEP, [Ref(B), Adt('Event', kind, [kval(k)])])
            except Panic as e:
                viols.append(('PANIC', 'mapper step panicked: %s' % (e,), None, node.hist1, node.hist2 + [(kind, k)], it.keys))
                work.extend(it.new_branches)
                npaths += 1
                continue
            except PathInfeasible:
                work.extend(it.new_branches)
                continue
            work.extend(it.new_branches)
            npaths += 1
            if skip:
                continue
            h2 = node.hist2 + [(kind, k)]
            sa = res_sig(it.keys, ra)
            sb = res_sig(it.keys, rb)
            if sa != sb:
                viols.append(('C06', 'a mapper that returned to rest answers differently from a fresh mapper',
                              repr((sa, sb)), node.hist1, h2, it.keys))
                continue
            children.append(PairNode(node.root, normalise(it.keys, A.v.f[1]), normalise(it.keys, B.v.f[1]), P, it.keys,
                                     node.hist1, h2, node.nsym + 1))
    return children, npaths, viols


def _w_expand_pair(blob):
    try:
        return _w_expand_pair2(blob)
    except Unsupported as e:
        return [], 0, []


def _w_expand_pair2(blob):
    node = pickle.loads(blob)
    spec, layout_v = ROOTS[node.root]
    consts = spec.const_keys() + spec.sym_names() + [m for m in MODS if m not in spec.const_keys()]
    children, npaths, viols = expand_pair(node, spec, layout_v, consts, OPTS.get('pairN', 2))
    out = [(sig_digest(pair_sig(ch)), pickle.dumps(ch, protocol=4)) for ch in children]
    vout = [(p, w, c, h1, h2, kt.trace, node.root) for (p, w, c, h1, h2, kt) in viols]
    return out, npaths, vout


def explore_pairs(pool, spec, root_id, fresh_state, rest_blobs, depth_cap, deadline=None, log=None):
    """product exploration from every distinct stale rest state. returns dict of counters + violations"""
    out = {'rest_states': 0, 'pair_states': 0, 'paths': 0, 'fixpoints': 0, 'viols': [], 'cut': 0, 'transitions': 0}
    for dg, blob in rest_blobs.items():
        if blob is None:
            continue
        root, st, kt, hist = pickle.loads(blob)
        out['rest_states'] += 1
        n0 = PairNode(root_id, st, clone_val(fresh_state), [], kt, hist, [], 0)
        seen = {sig_digest(pair_sig(n0))}
        frontier = [pickle.dumps(n0, protocol=4)]
        depth = 0
        while frontier and depth < depth_cap:
            nxt = []
            for res, npaths, vout in pool.imap_unordered(_w_expand_pair, frontier, chunksize=max(1, min(16, len(frontier) // 64))):
                out['paths'] += npaths
                out['transitions'] += len(res)
                for d2, b2 in res:
                    if d2 not in seen:
                        seen.add(d2)
                        nxt.append(b2)
                for v in vout:
                    if len(out['viols']) < 20:
                        out['viols'].append(v)
            frontier = nxt
            depth += 1
            if deadline is not None and time.time() > deadline:
                break
        out['pair_states'] += len(seen)
        if not frontier:
            out['fixpoints'] += 1
        else:
            out['cut'] += 1
        if deadline is not None and time.time() > deadline:
            break
    return out
