#!/usr/bin/env python3
"""Regenerates MANIFEST.json from the table below (keeps the file valid at all times)."""
import json

MAPPER_NOTE = ('Trusted: the MIR text printed by the pinned nightly (rustc -Zunpretty=mir, overflow checks on) is the program; '
               'mirsym\'s MIR semantics and its std models (Vec, iterators, HashMap as association list, Option/Result, vec! lowering) - '
               'validated every run by differential execution of sampled symbolic paths against the natively compiled tree; '
               'bounds: at most N keys held (3 quick / 4 thorough; 2/3 on the large built-in layouts, which are explored per sub-alphabet), '
               'layout corpus = unit-test layouts + built-in and README layouts loaded by the real loader + symbolic templates (named ones, random ones, and two random families with four keys held whose event keys are restricted to the layout\'s own keys); on a tree that does arithmetic on key codes a key symbol reaching an integer cast is replaced by representative codes (boundary-value concretisation, DESIGN.md 11.2).')

def mapper(pid, text):
    return {
        'property_id': pid,
        'quick_cmd': './check %s --tier quick' % pid,
        'thorough_cmd': './check %s --tier thorough' % pid,
        'evidence_file': 'evidence/%s.json' % pid,
        'replay_cmd_template': './check %s --replay {path}' % pid,
        'engine': 'mirsym',
        'level_claimed': {'category': 'model_checking', 'text': text, 'design_ref': 'DESIGN.md 6, 7/' + pid},
        'level_note': MAPPER_NOTE,
        'technique': 'symbolic execution of the real rustc MIR of Mapper::{for_layout,step,release_all} with symbolic key codes; branch feasibility by a native equality/disequality decision procedure cross-checked by z3; state subsumption to a fixpoint; counterexamples replayed natively',
    }

CHECKS = [
    mapper('C01', 'Bounded symbolic model checking to a fixpoint: every reachable canonical symbolic configuration of the real mapper (all key codes symbolic, <=N keys held, histories of any length incl. ill-formed events) with no physical key held has no virtual key held.'),
    mapper('C02', 'Same exploration; the justification oracle (clauses a-d; d in a weaker, certain-violations-only form on layouts with absorbing mappings) is evaluated at every prefix, membership tests decided under the path condition.'),
    mapper('C03', 'Same exploration on layouts without absorbing; at every acted press from every reachable configuration the outputs are compared with rule R (last-listed satisfied mapping).'),
    mapper('C04', 'Same exploration; modifier set at the key-down instant of the fired mapping\'s final output is checked against the allowed set.'),
    mapper('C05', 'Same exploration; foreign keys are symbols constrained to occur nowhere in the layout, so the non-interference clauses are decided for all foreign codes at once.'),
    mapper('C06', 'release_all is run from every reachable configuration (nothing held afterwards) and every distinct stale rest state is run in lock-step with a fresh mapper on symbolic continuations (product exploration with subsumption); StepResults must be equal.'),
    mapper('C07', 'Same exploration; after every step firing a Disabled/Special mapping no non-modifier key is held and no press is emitted before the next physical press.'),
    mapper('C08', 'Same exploration on layouts with absorbing mappings; absorption windows are tracked from the inputs and the clauses a-d are checked at every later press.'),
    mapper('C09', 'Same exploration; the returned ResultingRepeat is compared with the fired mapping\'s repeat (delay/interval are symbolic 32-bit values), NoChange/Disabled at the other steps.'),
    mapper('C19', 'Same exploration; strict press/release fold over the concatenated outputs of all steps and of release_all batches issued from every reachable configuration; second leg: the same fold over everything do_remapping_loop_one_device writes (shared loop exploration of C10-C12/C20, timer chords excepted).'),
]

LOOP_NOTE = ('Trusted: MIR text = program; mirsym\'s MIR semantics and std models; the Driver trait is the boundary (RealDriver, mio, nix are not encoded); '
             'environment contract: edge-triggered readiness, TimedOut only spuriously-when-idle or after the requested time, non-decreasing clock; '
             'bounds per spec (key events E, tablet events T, batch B, wake-ups W) listed in the evidence; no subsumption, so no claim beyond those bounds; '
             'violations are replayed natively with a scripted driver against the real loop before being reported.')

def loop(pid, text):
    return {
        'property_id': pid,
        'quick_cmd': './check %s --tier quick' % pid,
        'thorough_cmd': './check %s --tier thorough' % pid,
        'evidence_file': 'evidence/%s.json' % pid,
        'replay_cmd_template': './check %s --replay {path}' % pid,
        'engine': 'mirsym',
        'level_claimed': {'category': 'model_checking', 'text': text, 'design_ref': 'DESIGN.md 7/' + pid},
        'level_note': LOOP_NOTE,
        'technique': 'symbolic execution of the real MIR of do_remapping_loop_one_device (real mapper underneath) against a nondeterministic Driver environment: symbolic schedules, symbolic clock/delay/interval decided by z3 validity queries, reference = real mapper MIR on the read order; native replay with a scripted driver',
    }

def other(pid, text, note, technique):
    return {
        'property_id': pid,
        'quick_cmd': './check %s --tier quick' % pid,
        'thorough_cmd': './check %s --tier thorough' % pid,
        'evidence_file': 'evidence/%s.json' % pid,
        'replay_cmd_template': './check %s --replay {path}' % pid,
        'engine': 'mirsym',
        'level_claimed': {'category': 'other', 'text': text, 'design_ref': 'DESIGN.md 7/' + pid},
        'level_note': note,
        'technique': technique,
    }

CHECKS += [
    loop('C10', 'Bounded symbolic exploration of all delivery schedules (batching, late arrivals, spurious time-outs, interruption, device gone at every position - also in a notification that names the tablet switch too -, tablet switch gone) of symbolic key histories; writes compared with the real mapper run sequentially; queues must be empty at every poll.'),
    loop('C11', 'Same exploration with a symbolic non-decreasing clock and symbolic delay/interval: each requested time-out must equal the schedule t0+delay+j*interval-now (validity query), chords exactly once per genuine time-out, content/transience checked, cancellation on every key/tablet event.'),
    loop('C12', 'Same exploration with tablet on/off events anywhere (also in the same wake-up as key events, in either device order, and while a repeat is pending).'),
    loop('C20', 'Same exploration with a failure injected at each individual driver call of every explored schedule; the loop must return that error and write nothing afterwards.'),
    other('C17', 'Bounded symbolic execution with a reference oracle: every character of the pattern is a symbol over all non-NUL Unicode scalar values; the produced unit text is decoded by a symbolic model of systemd\'s ExecStart parsing and every decoded byte compared by validity queries (all single characters, all pairs, two-pattern lists; thorough: triples, three patterns); dictionary leg: the tokens of the code\'s own string literals (placeholders, specifiers, words of the unit template), read from the current source, as patterns alone and next to one symbolic character.',
          'Trusted: the model of systemd\'s parser (oracle), the fmt::Arguments byte-template model (validated against the native build on random patterns every run), MIR text = program.',
          'symbolic execution of the real MIR of build_service_text/build_exclude_text/systemd_arg_escape/escape_one_char incl. format! templates on symbolic Unicode strings; z3 validity queries against a symbolic systemd decoder; native replay'),
    other('C18', 'Bounded symbolic execution with a reference oracle: batches of 0..3 (thorough 0..5) events with every key a 32-bit symbol over the 484 codes, every output byte checked by a validity query; reader over fully symbolic 24-byte records; round trip reader(writer(batch)).',
          'Trusted: input_event layout of x86-64/aarch64 Linux (24 bytes, little endian; size checked natively), read/write stubs as byte channels, summary of the derived FromPrimitive (established by running its MIR on 0..1023), MIR text = program.',
          'symbolic execution of the real MIR of DevInputWriter::send, StructSerializer::add_*, DevInputReader::next with nix read/write stubbed; z3 validity queries per byte/record; native replay through a pipe'),
    other('C13', 'Bounded symbolic execution with a reference oracle: layout programs (rows, aliases with one or several definitions, plain/alias modifiers, repeat-only entries, every repeat form, absorbing) are converted by the real parser+converter MIR; in row programs one letter position at a time is a symbolic printable-ASCII character decided by the solver at the table lookup; the result is compared with a hand-written expansion built from an independent US-QWERTY table; equivalent spellings must convert identically; seeded random well-formed programs in random source order (alias defined after use, repeat-only entries of every mode before/after/without their target) are compared with the same expansion.',
          'Trusted: the hand-written expansion (oracle); the emission rule for alias definitions themselves is taken from the code (the property does not define it); serde_json text parsing is dependency code; String/HashMap/serde_json::Value models (validated natively on the concrete programs each run).',
          'symbolic execution of the real MIR of parse_layout_from_json + convert (incl. lazily initialised tables) with symbolic letters, z3-decided table lookups, reference expansion oracle, native replay'),
    other('C14', 'Bounded symbolic execution looking for panics: serde_json::Value trees derived from a structure-aware grammar (wrong types, missing/extra fields, empty arrays, repeated keys, undefined/misplaced aliases, over-long rows, unknown characters, symbolic 64-bit numbers) run through parse -> convert -> Mapper::for_layout; accepted layouts and the whole mapper corpus are driven with symbolic key histories watching for panics.',
          'Trusted: the claim starts at serde_json::Value (bytes are parsed by serde_json); the grammar bounds (<= 3 source mappings, string pools); panics are first-class outcomes of mirsym (failed MIR asserts, unwrap/expect, index, begin_panic).',
          'symbolic execution of the real MIR of the loader pipeline over a grammar of Value trees with symbolic numbers; panic reachability; shared mapper fixpoint exploration for accepted layouts; native replay'),
    other('C15', 'Bounded symbolic execution with a round-trip oracle: basic layouts (structure concrete, one key position symbolic at a time over all 484 codes, delay/interval symbolic i32) are serialised by the derived Serialize impls (crate MIR) against a model serializer and reloaded by the real parser+converter MIR; equality of the reloaded layout is decided per path / by validity queries. Second leg: every derivation of the C14 shorthand grammar that the real parser+converter accept (aliases, rows, repeat-only entries, absorbing, symbolic 64-bit timings) is saved and reloaded the same way.',
          'Trusted: the model serializer\'s correspondence to serde_json\'s writer (checked natively on concrete layouts each run); MIR text = program.',
          'symbolic execution of the real MIR of the derived Serialize impls + parse_layout_from_json + convert; a symbolic key forks into its 484 written names; z3 validity queries on delay/interval; native save/reload replay through a temporary file'),
    other('C16', 'Bounded symbolic execution with a relational oracle: /proc/bus/input/devices texts assembled from realistic entries with symbolic structure (presence/order of lines, entry order, exclude patterns) and symbolic hex digits in the KEY and EV masks (solver-decided thresholds); both extractors must agree, realistic complete entries (keyboards incl. a Bluetooth one under /devices/virtual/misc and one with empty bitmap words, mice with keyboard-like key maps incl. a macro mouse with an empty middle word, power button) have ground truth, classification must not depend on neighbours/order, and both discovery paths must select exactly the real, non-virtual, non-excluded keyboards.',
          'Trusted: /proc text format assumptions (every entry starts with I:), finite pools of names/paths/masks, stubs for read_to_string, the sysfs walk (dev_path_for_sysfs_name) and canonicalize, the */? glob contract of wildmatch; native replays run the real list_keyboards / filter_devices_verbose in a private mount namespace with a fake /proc, /sys and /dev/input.',
          'symbolic execution of the real MIR of both extractors, parse_mask_hex, list_keyboards, list_input_devices, flag_excluded*, filter_devices_verbose with environment stubs; metamorphic (relational) oracle; z3-decided mask digits; native replay in a mount namespace'),
]

ALL = ['C%02d' % i for i in range(1, 21)]
claimed = {c['property_id'] for c in CHECKS}
NA = [{'property_id': p, 'reason': 'no check registered'} for p in ALL if p not in claimed]

M = {
    'version': 1,
    'setup_cmd': 'python3-vt -m mirsym.frontend',
    'hooks': {
        'guard': 'ellbur_totalmapper_verif',
        'enable': 'none needed: private state is visible to mirsym because it executes the MIR; private functions are reachable from the replay binary via include!',
        'baseline_off_cmd': 'cd /repo && cargo test --workspace --no-fail-fast --offline',
        'source_commits': [],
        'add_only': True,
    },
    'engines': [
        {'name': 'mirsym', 'path': 'mirsym/', 'serves_properties': sorted(claimed),
         'kind_free_text': 'symbolic executor for rustc MIR text (Python + z3 5.1): forks by decision replay, native key-equality theory + z3, state subsumption; native replay binary built from the same tree'},
    ],
    'checks': CHECKS,
    'not_applicable': NA,
    'notes': 'All checks rebuild the MIR dump and the replay binary from /repo\'s working tree (cached by source hash under build/). Exit 2 = inconclusive (never success).',
}
json.dump(M, open('MANIFEST.json', 'w'), indent=1)
print('checks', len(CHECKS), 'n/a', len(NA))
