#!/usr/bin/env python3
"""Explore the mapper corpus specs whose name matches a regex (development aid; the registered checks use mirsym.mapper_run).
usage: python3-vt tools/runspecs.py <regex> [quick|thorough] [seed]     env: J=<workers> VERIF_REPO=<checkout>"""
import sys, os, re, time, multiprocessing as mp
sys.path.insert(0, os.path.join(os.path.dirname(os.path.abspath(__file__)), '..'))
from mirsym.frontend import load_program, Native, REPO
from mirsym import mapper, corpus
from mirsym.monitors import MAPPER_PROPS


def main():
    pat = sys.argv[1]
    tier = sys.argv[2] if len(sys.argv) > 2 else 'quick'
    seed = int(sys.argv[3]) if len(sys.argv) > 3 else 0
    prog = load_program(); mapper.init(prog)
    nat = Native()
    specs = [s for s in corpus.build(REPO, nat, tier, seed) if re.search(pat, s.name)]
    print(len(specs), 'specs')
    ROOTS = {}; nodes = {}
    for i, spec in enumerate(specs):
        roots = mapper.make_root(spec, MAPPER_PROPS)
        layout_v, node, it = roots[0]
        ROOTS[i] = (spec, layout_v); nodes[i] = node
    pool = mp.Pool(int(os.environ.get('J', '8')), initializer=mapper._w_init,
                   initargs=(None, ROOTS, {'seed': seed, 'ra': True, 'sample_rate': 0.0, 'pairN': 2, 'z3_new_states': 0.0}))
    tot = 0
    try:
        for i, spec in enumerate(specs):
            r = mapper.explore_spec(pool, spec, i, nodes[i], deadline=time.time() + float(os.environ.get('CAP', '300')))
            tot += r.secs
            print('%-40s N=%d states %6d depth %2d fix %s cut %s err %s selftest %d/%d %.1fs' % (
                spec.name, spec.N, r.states, r.depth, r.fixpoint, r.cut, r.error, r.selftest_failures, r.selftest_checked, r.secs))
            if os.environ.get('SHOW'):
                for l in spec.describe():
                    print('      ', l)
            seenp = set()
            for v in r.viols:
                if (v[0], v[1]) in seenp:
                    continue
                seenp.add((v[0], v[1]))
                print('   VIOL', v[0], v[1], v[2] if len(v) > 2 else '', v[3] if len(v) > 3 else '')
    finally:
        pool.terminate()
        nat.close()
    print('total %.1fs' % tot)


main()
