#!/usr/bin/env python3
"""Confirm a seeded change (patch.diff + demo.diff + meta.json under /tmp/seeds/<ID>/<k>/) in a scratch worktree
and run the registered checks against it. Usage: seedtest.py <ID> <k> [--props C01,C19] [--keep] [--skip-confirm]"""
import json, os, subprocess, sys, shutil, time

def sh(cmd, cwd=None, env=None, timeout=3600):
    r = subprocess.run(cmd, shell=True, cwd=cwd, env=env, stdout=subprocess.PIPE, stderr=subprocess.STDOUT, text=True, timeout=timeout)
    return r.returncode, r.stdout

def main():
    pid, k = sys.argv[1], sys.argv[2]
    args = sys.argv[3:]
    props = None
    for i, a in enumerate(args):
        if a == '--props': props = args[i + 1].split(',')
    root = os.environ.get('SEED_ROOT', '/tmp/seeds')
    tag = os.environ.get('SEED_TAG', '')
    src = '%s/%s/%s' % (root, pid, k)
    if not os.path.isdir(src):
        src = '/verif/seeded/%s-%s%s' % (pid, tag, k)
    meta = json.load(open(os.path.join(src, 'meta.json')))
    wt = '/tmp/wtv-%s-%s%s' % (pid, tag, k)
    if not os.path.isdir(wt):
        rc, out = sh('git -C /repo worktree add -q --detach %s HEAD' % wt)
        assert rc == 0, out
    sh('git checkout -q -- . && git clean -fdq -e target', cwd=wt)
    env = dict(os.environ, CARGO_NET_OFFLINE='true')
    res = {'confirmed': None}
    demo = meta.get('demo_test')
    if '--skip-confirm' not in args:
        rc, out = sh('git apply %s/demo.diff && cargo test --offline %s 2>&1 | tail -5' % (src, demo), cwd=wt, env=env)
        a_ok = 'test result: ok' in out and ' 1 passed' in out
        sh('git checkout -q -- .', cwd=wt)
        rc, out = sh('git apply %s/patch.diff && cargo test --offline 2>&1 | tail -5' % src, cwd=wt, env=env)
        b_ok = 'test result: ok. 49 passed' in out
        rc, out3 = sh('git apply %s/demo.diff && cargo test --offline %s 2>&1 | tail -8' % (src, demo), cwd=wt, env=env)
        c_ok = 'FAILED' in out3 or 'failed' in out3
        res['confirmed'] = bool(a_ok and b_ok and c_ok)
        res['confirm_detail'] = {'demo_passes_on_pristine': a_ok, 'suite_passes_with_patch': b_ok, 'demo_fails_with_patch': c_ok}
        sh('git checkout -q -- .', cwd=wt)
        if not res['confirmed']:
            print('NOT CONFIRMED', res['confirm_detail']); print(out[-600:]); print(out3[-600:])
    rc, out = sh('git apply %s/patch.diff' % src, cwd=wt)
    assert rc == 0, out
    props = props or [pid]
    res['checks'] = {}
    for p in props:
        t = time.time()
        env2 = dict(env, VERIF_REPO=wt)
        if '--full' not in args:
            env2['VERIF_SEEDTEST_STOP'] = p     # stop the shared mapper exploration at the first natively confirmed violation of p
        rc, out = sh('./check %s --tier quick' % p, cwd='/verif', env=env2)
        lines = [l for l in out.split('\n') if l.startswith(('VIOLATION', 'KNOWN-FINDING', 'INCONCLUSIVE', '  '))]
        res['checks'][p] = {'rc': rc, 'secs': round(time.time() - t, 1), 'lines': lines[:6]}
        print('%s-%s%s check %s rc=%d %.0fs %s' % (pid, tag, k, p, rc, time.time() - t, ' | '.join(lines[:2])[:300]))
    sh('git checkout -q -- .', cwd=wt)
    if '--keep' not in args:
        sh('git -C /repo worktree remove --force %s' % wt)
    out_dir = '/verif/seeded/%s-%s%s' % (pid, tag, k)
    os.makedirs(out_dir, exist_ok=True)
    if src != out_dir:
        for f in ('patch.diff', 'demo.diff'):
            shutil.copy(os.path.join(src, f), os.path.join(out_dir, f))
    prev = {}
    try:
        prev = json.load(open(os.path.join(out_dir, 'meta.json')))
    except Exception:
        pass
    for k_ in ('verified_by_framework_author', 'rebased', 'note_demo', 'base_commit_of_patch', 'what_was_run', 'note'):
        if k_ in prev and k_ not in meta:
            meta[k_] = prev[k_]
    if res.get('confirm_detail') is not None:
        meta['verified_by_framework_author'] = res.get('confirm_detail')
    meta.setdefault('check_results', {}).update(res['checks'])
    json.dump(meta, open(os.path.join(out_dir, 'meta.json'), 'w'), indent=1)
    print(json.dumps(res)[:400])

main()
